"""durable world: runtime-monitoring harness for aws-durable-execution-sdk-python."""
