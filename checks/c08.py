"""C08 world check (see DESIGN.md section 2, C08)."""
import copy

from checks.worldcheck import Spec, replayed_delivery

PROP = "C08"
def explicit(tier, seed):
    """Shapes the random generator does not produce: the same callable at several parallel positions, and user threads sharing
    one context (single invocation only: with user threads the call index itself depends on the schedule)."""
    i = 0
    for nb in (2, 3, 5):
        for how in ("identical", "equal"):
            for depth in (0, 1):
                brs = [{"body": [{"k": "step", "val": "same"}, {"k": "step", "val": 2}]} for _ in range(nb)]
                node = {"k": "par", "branches": brs, "cfg": {"max_conc": 1}, "same_fn": how}
                body = [{"k": "step", "val": 0}, node, {"k": "wait", "s": 1}, {"k": "step", "val": "after"}]
                if depth:
                    body = [{"k": "child", "body": body}]
                yield {"label": "same-callable-" + how, "prog": {"body": body}, "prog_seed": 8800 + i, "pattern": {"p": "plain"}}
                i += 1
    for T, N in ((2, 3), (2, 30), (4, 10), (4, 40), (8, 25)) if tier == "quick" else ((2, 3), (2, 30), (2, 200), (4, 10), (4, 40), (4, 150), (8, 25), (8, 100), (16, 40)):
        for op in ("step", "child"):
            for rep in range(2 if tier == "quick" else 6):
                body = [{"k": "step", "val": 0}, {"k": "uthreads", "threads": T, "n": N, "op": op}, {"k": "step", "val": "after"}]
                if rep % 2:
                    # the threads issue the very FIRST operations of a fresh context (nothing has warmed its counter up)
                    body = [{"k": "child", "body": body[1:]}]
                yield {"label": "user-threads-share-context", "prog": {"body": body}, "prog_seed": 8900 + i, "pattern": {"p": "plain"}, "max_inv": 1,
                       "opts": {"perturb": {"p": 0.05, "seed": seed * 131 + i, "files": ["context.py", "threading.py"]}} if rep >= 1 else {}}
                i += 1


def dense_start_cases(tier, seed):
    """Many branches of one map/parallel start at the same moment while every statement of the executor is a likely pre-emption
    point: whatever per-branch state the executor keeps while a branch is being entered must not leak into a sibling."""
    import random

    rng = random.Random(seed + 23)
    for j in range(8 if tier == "quick" else 60):
        nb = rng.choice([4, 6, 8, 12])
        kind = rng.choice(["par", "map"])
        inner = [{"k": "step", "val": 1}, {"k": "step", "val": 2}]
        if j % 3 == 2:
            inner = [{"k": "child", "body": [{"k": "step", "val": 1}]}, {"k": "step", "val": 2}]
        if kind == "par":
            node = {"k": "par", "branches": [{"body": copy.deepcopy(inner)} for _ in range(nb)], "cfg": {"preset": "all_completed", "max_conc": rng.choice([None, nb // 2])}}
        else:
            node = {"k": "map", "items": list(range(nb)), "body": inner, "cfg": {"max_conc": rng.choice([None, nb // 2])}}
        yield {"label": "dense-branch-start", "prog": {"body": [{"k": "step", "val": 0}, node, {"k": "step", "val": "end"}]}, "prog_seed": 8990 + j, "pattern": {"p": "plain"},
               "opts": {"perturb": {"p": rng.choice([0.3, 0.6]), "sleep_p": 0.6, "max_sleep": 0.002, "seed": seed * 17 + j, "files": ["executor.py"]}}}


def wide_cases(tier, seed):
    """Contexts that hand out many identifiers: a map / parallel with hundreds of branches, a context with hundreds of operations in
    sequence (tables indexed by a hash or a truncated counter only repeat beyond some width)."""
    i = 0
    for n in ((130, 260) if tier == "quick" else (64, 129, 130, 200, 257, 300, 520, 1030)):
        for shape in ("map", "seq", "par"):
            if shape == "map":
                body = [{"k": "map", "items": list(range(n)), "body": [{"k": "step", "val": "m"}], "cfg": {"max_conc": 8}}, {"k": "wait", "s": 1}, {"k": "step", "val": "after"}]
            elif shape == "par":
                if n > 300:
                    continue
                body = [{"k": "par", "branches": [{"body": [{"k": "step", "val": b}]} for b in range(n)], "cfg": {"max_conc": 8}}, {"k": "wait", "s": 1}, {"k": "step", "val": "after"}]
            else:
                body = [{"k": "child", "body": [{"k": "step", "val": j} for j in range(n)]}, {"k": "wait", "s": 1}, {"k": "step", "val": "after"}]
            yield {"label": "wide-" + shape, "prog": {"body": body}, "prog_seed": 8700 + i, "pattern": {"p": "plain"}, "max_inv": 6, "opts": {"hang_s": 6.0}}
            i += 1


def explicit_all(tier, seed):
    yield from explicit(tier, seed)
    yield from wide_cases(tier, seed)
    yield from dense_start_cases(tier, seed)


SPEC = Spec(
    PROP,
    level="exploration",
    rule="random programs (all nine operation kinds, nesting<=3) x {uninterrupted with random pagination/latency, every single "
    "crash point of a small-program corpus, random multi-crash, asynchronous SIGKILL, yield injection}; bijection structural-path <-> Id over every update of every invocation; ParentId equals the id of the enclosing context; across all executions of all programs in the worker, ids are a function of the position chain only (metamorphic, no re-implementation of the hash). Explicit slice: the same / equal callables at several parallel positions; 2-16 user threads starting operations on one shared context at once (single invocation; collision-freedom and parent links only). 4-12 branches started at once under dense yield injection in the executor. Non-trivial = positions recorded. "
    "A class = (program shape hash, interruption pattern, event kind at which the crash landed).",
    deciding=lambda r: True,
    explicit=explicit_all,
)
cases = SPEC.cases
run_case = SPEC.run_case
if __name__ == "__main__":
    SPEC.main("checks.c08")
