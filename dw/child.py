"""Child-side runtime: runs one invocation of the real SDK inside a forked process.

Talks to the parent (backend + monitors + conductor) over two pipes. Every probe event is a
synchronous RPC, so the parent sees one total order consistent with causality in the child and can
kill the child at any event (a faithful crash: no finally, no flush).
"""
from __future__ import annotations

import datetime as _dt
import faulthandler
import itertools
import os
import linecache
import random
import re
import signal
import sys
import threading
import time as _time
import types

from dw import ipc
from dw.canon import canon


class Runtime:
    def __init__(self, wfd: int, rfd: int):
        self.wfd, self.rfd = wfd, rfd
        self._ids = itertools.count(1)
        self._wlock = threading.Lock()
        self._slots: dict[int, list] = {}
        self._slock = threading.Lock()
        t = threading.Thread(target=self._reader, name="verif-reader", daemon=True)
        t.start()

    def _reader(self):
        while True:
            fr = ipc.read_frame_blocking(self.rfd)
            if fr is None:
                os._exit(99)
            mid, resp = fr
            with self._slock:
                slot = self._slots.pop(mid, None)
            if slot is not None:
                slot[1] = resp
                slot[0].set()

    def rpc(self, kind: str, **payload):
        mid = next(self._ids)
        slot = [threading.Event(), None]
        with self._slock:
            self._slots[mid] = slot
        msg = (mid, threading.current_thread().name, kind, payload)
        with self._wlock:
            ipc.write_frame(self.wfd, msg)
        slot[0].wait()
        return slot[1]

    def post(self, kind: str, **payload):
        """Fire-and-forget event (mid 0 = no ack)."""
        msg = (0, threading.current_thread().name, kind, payload)
        with self._wlock:
            ipc.write_frame(self.wfd, msg)


RT: Runtime | None = None


# ----------------------------------------------------------------------------- fake boto3 client
def _raise_fault(spec: dict, op_name: str):
    if spec.get("kind") == "client":
        from botocore.exceptions import ClientError

        raise ClientError(
            {
                "Error": {"Code": spec.get("code", "ServiceException"), "Message": spec.get("message", "injected")},
                "ResponseMetadata": {"HTTPStatusCode": spec.get("status", 500), "RequestId": "verif"},
            },
            op_name,
        )
    cls = {"RuntimeError": RuntimeError, "ConnectionError": ConnectionError, "TimeoutError": TimeoutError}.get(
        spec.get("cls", "RuntimeError"), RuntimeError
    )
    raise cls(spec.get("message", "injected non-botocore failure"))


def _garbled(spec: dict) -> dict:
    """An HTTP-200 answer the SDK cannot interpret (a value of a newer service version, a member missing): from the SDK's point of
    view the call failed, although the service applied the request."""
    op = {"Id": "garbled-op", "Type": "STEP", "Status": "SUCCEEDED", "SubType": "Step", "Name": "x"}
    how = spec.get("how", "subtype")
    if how == "subtype":
        op["SubType"] = "SubTypeOfANewerService"
    elif how == "status":
        op["Status"] = "STATUS_OF_A_NEWER_SERVICE"
    elif how == "type":
        op["Type"] = "TYPE_OF_A_NEWER_SERVICE"
    elif how == "no-id":
        del op["Id"]
    return op


class FakeLambdaClient:
    """What LambdaClient expects from boto3: two methods taking wire kwargs and returning wire dicts."""

    def checkpoint_durable_execution(self, **kw):
        resp = RT.rpc("api", op="checkpoint", kw=kw)
        if resp[0] == "raise":
            if resp[1].get("kind") == "garble":
                return {"CheckpointToken": "tok-garbled", "NewExecutionState": {"Operations": [_garbled(resp[1])]}}
            _raise_fault(resp[1], "CheckpointDurableExecution")
        return resp[1]

    def get_durable_execution_state(self, **kw):
        resp = RT.rpc("api", op="get_state", kw=kw)
        if resp[0] == "raise":
            if resp[1].get("kind") == "garble":
                return {"Operations": [_garbled(resp[1])], "NextMarker": None}
            _raise_fault(resp[1], "GetDurableExecutionState")
        return resp[1]


# ----------------------------------------------------------------------------- clock + polling shims
class _TimeShim(types.ModuleType):
    def __init__(self, clock):
        super().__init__("time")
        self._clock = clock
        for k in dir(_time):
            if not k.startswith("__") and k != "time":
                setattr(self, k, getattr(_time, k))

    def time(self):
        return self._clock.now()


def _make_datetime_shim(clock):
    class VDateTime(_dt.datetime):
        @classmethod
        def now(cls, tz=None):
            return _dt.datetime.fromtimestamp(clock.now(), tz=tz)

    shim = types.ModuleType("datetime")
    for k in dir(_dt):
        if not k.startswith("__"):
            setattr(shim, k, getattr(_dt, k))
    shim.datetime = VDateTime
    return shim


def _make_queue_shim(div: float):
    import queue as _q

    class Queue(_q.Queue):
        def get(self, block=True, timeout=None):
            if timeout is not None:
                timeout = timeout / div
            return super().get(block, timeout)

    shim = types.ModuleType("queue")
    for k in dir(_q):
        if not k.startswith("__"):
            setattr(shim, k, getattr(_q, k))
    shim.Queue = Queue
    return shim


def _make_threading_shim(div: float):
    class Event(threading.Event):
        def wait(self, timeout=None):
            if timeout is not None:
                timeout = timeout / div
            return super().wait(timeout)

    shim = types.ModuleType("threading")
    for k in dir(threading):
        if not k.startswith("__"):
            setattr(shim, k, getattr(threading, k))
    shim.Event = Event
    return shim


_ALL_IMPORTED = [False]


def import_all_sdk_modules():
    """Import every module of the SDK package once (done in the parent, so forked children inherit them)."""
    if _ALL_IMPORTED[0]:
        return
    import importlib
    import pkgutil

    import aws_durable_execution_sdk_python as _pkg

    for mi in pkgutil.walk_packages(_pkg.__path__, _pkg.__name__ + "."):
        try:
            importlib.import_module(mi.name)
        except Exception:  # noqa: BLE001, S112
            continue
    _ALL_IMPORTED[0] = True


def install_clock(clock, poll_div: float) -> dict:
    """Rebind the wall clock seen by the SDK modules to the virtual clock, and divide polling timeouts."""
    import aws_durable_execution_sdk_python.concurrency.executor as m_exec
    import aws_durable_execution_sdk_python.concurrency.models as m_models
    import aws_durable_execution_sdk_python.exceptions as m_exc
    import aws_durable_execution_sdk_python.lambda_service as m_ls
    import aws_durable_execution_sdk_python.state as m_state
    import aws_durable_execution_sdk_python.suspend as m_susp

    report = {"time": 0, "datetime": 0, "queue": 0, "threading": 0}
    tshim = _TimeShim(clock)
    dshim = _make_datetime_shim(clock)
    # every SDK module that refers to the time / datetime *modules* sees the virtual clock (whichever modules those are in
    # the tree under check)
    import aws_durable_execution_sdk_python as _pkg

    import_all_sdk_modules()
    for name, m in list(sys.modules.items()):
        if m is None or not name.startswith(_pkg.__name__):
            continue
        if getattr(m, "time", None) is _time:
            m.time = tshim
            report["time"] += 1
        if getattr(m, "datetime", None) is _dt:
            m.datetime = dshim
            report["datetime"] += 1
    if poll_div and poll_div != 1:
        if isinstance(getattr(m_state, "queue", None), types.ModuleType):
            m_state.queue = _make_queue_shim(poll_div)
            report["queue"] += 1
        if isinstance(getattr(m_exec, "threading", None), types.ModuleType):
            m_exec.threading = _make_threading_shim(poll_div)
            report["threading"] += 1
    # self-check: the SDK's own suspension helpers must see virtual time
    from aws_durable_execution_sdk_python.exceptions import TimedSuspendExecution

    ok = True
    try:
        t = TimedSuspendExecution.from_delay("x", 10).scheduled_timestamp
        ok = ok and abs(t - (clock.now() + 10)) < 5
        try:
            m_susp.suspend_with_optional_resume_timestamp("x", _dt.datetime.fromtimestamp(clock.now() + 100, tz=_dt.timezone.utc))
        except TimedSuspendExecution as e:
            ok = ok and abs(e.scheduled_timestamp - (clock.now() + 100)) < 5
        try:
            m_susp.suspend_with_optional_resume_timestamp("x", _dt.datetime.fromtimestamp(clock.now() - 100, tz=_dt.timezone.utc))
        except TimedSuspendExecution as e:
            ok = ok and abs(e.scheduled_timestamp - clock.now()) < 5
    except Exception:  # noqa: BLE001
        ok = False
    report["selfcheck"] = ok
    return report


# ----------------------------------------------------------------------------- schedule perturbation
_LOCK_RE = re.compile(r"^\s*with\s+\S*(lock|mutex)\w*\s*:|\.acquire\(", re.I)
_SYNC_RE = re.compile(r"\.(set|clear|notify|notify_all|release|put|put_nowait|submit|start|set_result|set_exception)\(")


class Perturb:
    """sys.monitoring LINE-level yield injection restricted to the SDK's own source files."""

    TOOL = 4

    def __init__(self, spec: dict):
        self.p = spec.get("p", 0.02)
        self.sleep_p = spec.get("sleep_p", 0.1)
        self.max_sleep = spec.get("max_sleep", 0.002)
        self.files = spec.get("files")  # optional basenames filter
        self.rng = random.Random(spec.get("seed", 0))
        self.hits = 0
        self.lock = threading.Lock()
        self.pct = spec.get("pct")  # {"d": n} PCT-like per-thread priorities
        self.prio: dict[int, float] = {}
        # {"p": .., "sleep": ..}: the thread loses the CPU right AFTER a statement that signals / publishes / hands over
        # (event.set, queue.put, pool.submit, lock release, dict.clear ...): the classic shape of "set the flag, then store the reason"
        self.slow = spec.get("slow_thread")  # {"re": thread-name regex, "sleep": s}: every statement that thread executes takes that long
        self.slow_re = re.compile(self.slow["re"]) if self.slow else None
        self.slow_cache: dict[int, bool] = {}
        self.after_sync = spec.get("after_sync")
        # {"thread_re": name regex, "sleep": s, "p": ..}: matching threads lose the CPU right BEFORE a statement that takes a lock
        # (`with ...lock:` / `.acquire(`): the other classic pre-emption point, between two critical sections of one call
        self.before_lock = spec.get("before_lock")
        self.before_re = re.compile(self.before_lock["thread_re"]) if self.before_lock and self.before_lock.get("thread_re") else None
        self.before_cache: dict[int, bool] = {}
        self.lock_lines: dict[tuple, bool] = {}
        self.after: dict[int, bool] = {}
        self.sync_lines: dict[tuple, bool] = {}
        self.sync_hits = 0

    def install(self):
        mon = sys.monitoring
        try:
            mon.use_tool_id(self.TOOL, "verif-perturb")
        except ValueError:
            pass
        root = os.path.join("src", "aws_durable_execution_sdk_python")
        files = self.files

        def on_line(code, line):
            fn = code.co_filename
            if root not in fn or (files and os.path.basename(fn) not in files):
                return mon.DISABLE
            with self.lock:
                r = self.rng.random()
                r2 = self.rng.random()
                r3 = self.rng.random()
            if self.slow_re is not None:
                tid = threading.get_ident()
                sl = self.slow_cache.get(tid)
                if sl is None:
                    sl = self.slow_cache[tid] = bool(self.slow_re.search(threading.current_thread().name))
                if sl:
                    self.hits += 1
                    _time.sleep(self.slow.get("sleep", 0.001))
                    return None
            if self.before_lock:
                tid = threading.get_ident()
                mine = self.before_cache.get(tid)
                if mine is None:
                    mine = self.before_cache[tid] = (self.before_re is None or bool(self.before_re.search(threading.current_thread().name)))
                if mine:
                    key = (fn, line)
                    is_lock = self.lock_lines.get(key)
                    if is_lock is None:
                        is_lock = self.lock_lines[key] = bool(_LOCK_RE.search(linecache.getline(fn, line)))
                    if is_lock and r3 < self.before_lock.get("p", 1.0):
                        self.hits += 1
                        _time.sleep(self.before_lock.get("sleep", 0.01))
                        return None
            if self.after_sync:
                tid = threading.get_ident()
                was = self.after.pop(tid, False)
                key = (fn, line)
                is_sync = self.sync_lines.get(key)
                if is_sync is None:
                    is_sync = self.sync_lines[key] = bool(_SYNC_RE.search(linecache.getline(fn, line)))
                if is_sync:
                    self.after[tid] = True
                if was and r3 < self.after_sync.get("p", 0.5):
                    self.sync_hits += 1
                    self.hits += 1
                    _time.sleep(self.after_sync.get("sleep", 0.002) * (0.5 + r2))
                    return None
            if self.pct:
                tid = threading.get_ident()
                pr = self.prio.get(tid)
                if pr is None or r3 < self.pct.get("change", 0.001):
                    pr = self.prio[tid] = r2
                if r < self.p * (1.5 - pr) * 2:
                    self.hits += 1
                    _time.sleep(self.max_sleep * (1 - pr) if r2 < self.sleep_p else 0)
                return None
            if r < self.p:
                self.hits += 1
                _time.sleep(r3 * self.max_sleep if r2 < self.sleep_p else 0)
            return None

        mon.register_callback(self.TOOL, mon.events.LINE, on_line)
        mon.set_events(self.TOOL, mon.events.LINE)
        sys.setswitchinterval(1e-5)


# ----------------------------------------------------------------------------- lambda context
class LambdaCtx:
    aws_request_id = "verif-req"
    log_group_name = None
    log_stream_name = None
    function_name = "verif-fn"
    memory_limit_in_mb = "128"
    function_version = "1"
    invoked_function_arn = "arn:verif:fn"
    tenant_id = None
    client_context = None
    identity = None

    def get_remaining_time_in_millis(self):
        return 900000

    def log(self, msg):
        pass


# ----------------------------------------------------------------------------- child main
def child_main(wfd: int, rfd: int, scenario: dict, event, clock, inv_no: int, dumpfile: str | None):
    global RT  # noqa: PLW0603
    import logging

    logging.disable(logging.CRITICAL)
    RT = Runtime(wfd, rfd)
    if dumpfile:
        f = open(dumpfile, "w")  # noqa: SIM115
        faulthandler.register(signal.SIGUSR1, file=f, all_threads=True, chain=False)

        def dump_executors(_sig, _frm):
            # diagnostic only (never an oracle): state of live map/parallel executors when a hang is being diagnosed
            import gc

            try:
                from aws_durable_execution_sdk_python.concurrency.executor import ConcurrentExecutor, TimerScheduler

                for o in gc.get_objects():
                    if isinstance(o, ConcurrentExecutor):
                        f.write("EXECUTOR %s event_set=%s suspend_exc=%r counters=(ok=%s fail=%s total=%s min=%s) states=%s\n" % (
                            type(o).__name__, o._completion_event.is_set(), o._suspend_exception, o.counters.success_count, o.counters.failure_count,
                            o.counters.total_tasks, o.counters.min_successful,
                            [(e.index, e.status.value, e.suspend_until, None if e._future is None else (e._future.done(), e._future.cancelled(), e._future.running())) for e in o.executables_with_state]))
                    elif isinstance(o, TimerScheduler):
                        f.write("SCHEDULER pending=%s shutdown=%s now=%s\n" % ([(t, c, e.index, e.status.value) for t, c, e in o._pending_resumes], o._shutdown.is_set(), clock.now()))
                f.flush()
            except Exception as e:  # noqa: BLE001
                f.write("EXECUTOR-DUMP-FAILED %r\n" % (e,))
                f.flush()

        signal.signal(signal.SIGUSR2, dump_executors)
    opts = scenario.get("opts", {})
    # diagnostics (never oracles): exceptions that kill a thread or are swallowed by a future's done-callback machinery
    import concurrent.futures._base as _cfb
    import traceback as _tb

    def _thread_exc(args):
        try:
            RT.post("thread_exc", where="thread:" + str(getattr(args.thread, "name", "?")), cls=type(args.exc_value).__name__,
                    msg=str(args.exc_value)[:200], tb="".join(_tb.format_tb(args.exc_traceback))[-900:])
        except Exception:  # noqa: BLE001
            pass

    threading.excepthook = _thread_exc

    class _CbLog:
        def exception(self, msg, *a, **k):
            et, ev, tb = sys.exc_info()
            try:
                RT.post("thread_exc", where="future-callback", cls=getattr(et, "__name__", "?"), msg=str(ev)[:200], tb="".join(_tb.format_tb(tb))[-900:])
            except Exception:  # noqa: BLE001
                pass

        def __getattr__(self, name):
            return lambda *a, **k: None

    _cfb.LOGGER = _CbLog()
    clock_report = install_clock(clock, opts.get("poll_div", clock.k))
    RT.post("clock", report=clock_report)
    from dw import targeted

    targeted.install(opts.get("targeted") or [], RT)
    contracts = None
    if opts.get("contracts"):
        from dw import contracts

        RT.post("contracts_attached", report=contracts.install(RT))
    lockorder = None
    if opts.get("lockorder"):
        from dw import lockorder

        RT.post("lockorder_attached", report=lockorder.install(RT.post))
    from dw.interp import build_handler, warm_handler

    handler = None
    while True:
        if opts.get("warm"):
            # one decorated handler object for the life of the sandbox (as a Lambda module-level handler), a fresh interpreter of
            # the workflow program per invocation
            handler, boot = warm_handler(scenario, RT, inv_no, handler)
        else:
            handler, boot = build_handler(scenario, RT, inv_no)
        pert = None
        if opts.get("perturb"):
            spec = dict(opts["perturb"])
            spec["seed"] = spec.get("seed", 0) * 1000 + inv_no
            pert = Perturb(spec)
            pert.install()
        outcome: dict
        try:
            ev = event() if callable(event) else event
            res = handler(ev, LambdaCtx())
            outcome = {"kind": "return", "value": res}
        except BaseException as e:  # noqa: BLE001
            outcome = {
                "kind": "raise",
                "cls": type(e).__name__,
                "mro": [c.__name__ for c in type(e).__mro__],
                "msg": str(e)[:500],
                "retriable": getattr(e, "is_retriable", lambda: None)() if hasattr(e, "is_retriable") else None,
            }
        if pert:
            sys.monitoring.set_events(Perturb.TOOL, 0)
        _time.sleep(0)  # let finished workers settle
        alive = [t.name for t in threading.enumerate() if t.is_alive() and t.name.startswith("dex-handler")]
        allthreads = [t.name for t in threading.enumerate() if t.is_alive() and t is not threading.current_thread()]
        if lockorder:
            RT.post("lockorder", **lockorder.report())
        resp = RT.rpc("inv_end", outcome=outcome, dex_alive=alive, threads=allthreads, perturb_hits=pert.hits if pert else 0,
                      contract_evals=dict(contracts.COUNTS) if contracts else None)
        if isinstance(resp, dict) and "next" in resp:
            nxt = resp["next"]
            event, inv_no = nxt["event"], nxt["inv"]
            clock.jump = nxt["jump"]
            continue
        break
    if opts.get("linger_s"):
        # the process outlives the invocation for a moment, with whatever threads the invocation left behind
        _time.sleep(float(opts["linger_s"]))
    os._exit(0)
