"""Type-tagged canonical text for exact (type-sensitive) equality of Python values."""
from __future__ import annotations

import datetime as _dt
import math
import uuid
from decimal import Decimal


def canon(v, _depth=0) -> str:  # noqa: C901, PLR0911, PLR0912
    if _depth > 900:
        return "<deep>"
    t = type(v)
    if v is None:
        return "N"
    if t is bool:
        return "b:%s" % v
    if t is int:
        return "i:%d" % v if -(10**50) < v < 10**50 else "i:x%x" % v
    if t is float:
        if math.isnan(v):
            return "f:nan"
        return "f:%r" % v
    if t is str:
        return "s:%s" % v.encode("utf-8", "surrogatepass").hex() if _needs_hex(v) else "s:'%s'" % v
    if t is bytes:
        return "B:%s" % v.hex()
    if t is uuid.UUID:
        return "u:%s" % v
    if t is Decimal:
        return "d:%s" % str(v)
    if t is _dt.datetime:
        off = v.utcoffset()
        return "dt:%s|%s" % (v.isoformat(), "naive" if off is None else off.total_seconds())
    if t is _dt.date:
        return "D:%s" % v.isoformat()
    if t is list:
        return "l[" + ",".join([canon(x, _depth + 1) for x in v]) + "]"  # list comprehension: no C-level recursion through join(generator)
    if t is tuple:
        return "t(" + ",".join([canon(x, _depth + 1) for x in v]) + ")"
    if t in (set, frozenset):
        return "S{" + ",".join(sorted(canon(x, _depth + 1) for x in v)) + "}"
    if t is dict:
        items = sorted([(canon(k, _depth + 1), canon(x, _depth + 1)) for k, x in v.items()])
        return "m{" + ",".join("%s=%s" % kv for kv in items) + "}"
    name = t.__name__
    if name == "BatchResult":
        return "br{" + ",".join(_canon_item(i, _depth + 1) for i in v.all) + "|" + getattr(v.completion_reason, "value", str(v.completion_reason)) + "}"
    if name == "BatchItem":
        return _canon_item(v, _depth + 1)
    if name == "ErrorObject":
        return "err(%s)" % canon((v.message, v.type, v.data, v.stack_trace), _depth + 1)
    return "?%s.%s:%r" % (t.__module__, name, v)


def _needs_hex(s: str) -> bool:
    return any(ord(c) < 32 or ord(c) > 126 or c in "'\\" for c in s)


def _canon_item(i, d) -> str:
    err = i.error
    return "bi(%d,%s,%s,%s)" % (
        i.index,
        getattr(i.status, "value", i.status),
        canon(i.result, d),
        "N" if err is None else canon(err, d),
    )


def key_order(v, _depth=0) -> str:
    """Iteration order of every dict inside v (what a workflow that loops over a delivered mapping observes), as a short digest;
    '' when v contains no dict with more than one key."""
    import hashlib

    acc = []

    def walk(x, d):
        if d > 200:
            return
        if type(x) is dict:
            if len(x) > 1:
                acc.append("|".join(canon(k) for k in x))
            for y in x.values():
                walk(y, d + 1)
        elif type(x) in (list, tuple):
            for y in x:
                walk(y, d + 1)
        elif type(x).__name__ == "BatchResult":
            for it in x.all:
                walk(it.result, d + 1)

    try:
        walk(v, 0)
    except Exception:  # noqa: BLE001
        return "?"
    if not acc:
        return ""
    return hashlib.sha1("\n".join(acc).encode("utf-8", "surrogatepass")).hexdigest()[:10]
