"""Lock-order sanitizer for the SDK's own locks (child side).

Every Lock / RLock the SDK creates through its modules' `Lock`, `RLock` or `threading.*` names is wrapped.  The wrapper keeps, per
thread, the stack of SDK locks held, and records an edge a -> b (lock *instances*) whenever b is acquired while a is held, together
with the other locks held at that moment (gate locks), the thread and the time.  At the end of an invocation the graph is searched
for inversions a -> b (thread T1) and b -> a (thread T2 != T1) that are not protected by a common gate lock and whose threads were
active in overlapping periods: the classic feasible deadlock, reported whether or not the fatal interleaving happened in this run.
A thread that blocks on a non-reentrant lock it already holds is reported at once (certain self-deadlock).

This is perturbation-free observation; the verdicts it feeds (mon_c07) are limited to those two patterns.
"""
from __future__ import annotations

import sys
import threading
import time
import types

_raw_lock = threading.Lock
_raw_rlock = threading.RLock

_meta = _raw_lock()
_tls = threading.local()
EDGES: dict[tuple[int, int], dict] = {}
SITES: dict[int, str] = {}
ACTIVE: dict[int, list] = {}  # thread ident -> [first_seen, last_seen, name]
SELF: list[dict] = []
COUNTS = {"acquires": 0, "locks": 0}
_post = [None]


def _site(depth=2) -> str:
    """Nearest frame inside the SDK (file:line relative to the package)."""
    f = sys._getframe(1)
    for _ in range(12):
        if f is None:
            break
        fn = f.f_code.co_filename
        if "aws_durable_execution_sdk_python/" in fn:
            return "%s:%d" % (fn.rsplit("aws_durable_execution_sdk_python/", 1)[-1], f.f_lineno)
        f = f.f_back
    return "?"


def _held() -> list:
    h = getattr(_tls, "held", None)
    if h is None:
        h = _tls.held = []
    return h


class _Tracked:
    reentrant = False

    def __init__(self, site):
        self._l = _raw_rlock() if self.reentrant else _raw_lock()
        self._owner = None
        self._depth = 0
        with _meta:
            COUNTS["locks"] += 1
            self._id = COUNTS["locks"]  # serial number, never reused (id() of a collected lock would alias a new one)
            SITES[self._id] = site

    def acquire(self, blocking=True, timeout=-1):
        me = threading.get_ident()
        held = _held()
        now = time.monotonic()
        mine = self._owner == me and self._depth > 0
        if mine and not self.reentrant and blocking and timeout == -1:
            ev = {"site": SITES.get(self._id), "thread": threading.current_thread().name, "at": _site()}
            with _meta:
                SELF.append(ev)
            if _post[0]:
                try:
                    _post[0]("lockorder_self", **ev)
                except Exception:  # noqa: BLE001, S110
                    pass
        if not mine:
            with _meta:
                COUNTS["acquires"] += 1
                a = ACTIVE.get(me)
                if a is None:
                    ACTIVE[me] = [now, now, threading.current_thread().name]
                else:
                    a[1] = now
                for (hid, _hs) in held:
                    if hid == self._id:
                        continue
                    key = (hid, self._id)
                    e = EDGES.get(key)
                    gates = frozenset(x for (x, _s) in held if x not in (hid, self._id))
                    if e is None:
                        EDGES[key] = {"threads": {me}, "gates": [gates], "t": [now], "at": _site()}
                    elif me not in e["threads"] or gates not in e["gates"]:
                        e["threads"].add(me)
                        if gates not in e["gates"]:
                            e["gates"].append(gates)
                        e["t"].append(now)
        ok = self._l.acquire(blocking, timeout)
        if ok:
            if self._owner == me and self._depth > 0:
                self._depth += 1
            else:
                self._owner = me
                self._depth = 1
                held.append((self._id, None))
        return ok

    def release(self):
        me = threading.get_ident()
        if self._owner == me:
            self._depth -= 1
            if self._depth == 0:
                self._owner = None
                held = _held()
                for i in range(len(held) - 1, -1, -1):
                    if held[i][0] == self._id:
                        del held[i]
                        break
        self._l.release()

    def locked(self):
        return self._l.locked() if hasattr(self._l, "locked") else self._depth > 0

    def __enter__(self):
        self.acquire()
        return True

    def __exit__(self, *a):
        self.release()

    # RLock internals used by threading.Condition - not needed by the SDK, provided for safety
    def _is_owned(self):
        return self._owner == threading.get_ident() and self._depth > 0


class TLock(_Tracked):
    reentrant = False


class TRLock(_Tracked):
    reentrant = True


def _lock_factory():
    return TLock(_site())


def _rlock_factory():
    return TRLock(_site())


def install(post=None) -> dict:
    """Rebind Lock / RLock (and the Lock/RLock of any `threading` module object) in every loaded SDK module."""
    _post[0] = post
    import aws_durable_execution_sdk_python as pkg

    rep = {"names": 0, "modules": 0}
    for name, m in list(sys.modules.items()):
        if m is None or not name.startswith(pkg.__name__):
            continue
        if getattr(m, "Lock", None) is _raw_lock:
            m.Lock = _lock_factory
            rep["names"] += 1
        if getattr(m, "RLock", None) is _raw_rlock:
            m.RLock = _rlock_factory
            rep["names"] += 1
        th = getattr(m, "threading", None)
        if isinstance(th, types.ModuleType) and getattr(th, "Lock", None) is _raw_lock:
            if th is threading:
                shim = types.ModuleType("threading")
                for k in dir(threading):
                    if not k.startswith("__"):
                        setattr(shim, k, getattr(threading, k))
                th = shim
                m.threading = shim
            th.Lock = _lock_factory
            th.RLock = _rlock_factory
            rep["modules"] += 1
    return rep


def reset() -> None:
    """Forget the edges seen so far (in-process harnesses run many trials in one interpreter; lock serial numbers stay unique)."""
    with _meta:
        EDGES.clear()
        ACTIVE.clear()
        del SELF[:]


def report() -> dict:
    """Edges seen so far and unguarded inversions between different, overlapping threads."""
    with _meta:
        edges = {k: {"threads": set(v["threads"]), "gates": list(v["gates"]), "at": v["at"]} for k, v in EDGES.items()}
        active = {k: list(v) for k, v in ACTIVE.items()}
        sites = dict(SITES)
        selfs = list(SELF)
        counts = dict(COUNTS)
    inv = []
    seen = set()
    for (a, b), e1 in edges.items():
        e2 = edges.get((b, a))
        if e2 is None or (b, a) in seen:
            continue
        seen.add((a, b))
        found = None
        for t1 in e1["threads"]:
            for t2 in e2["threads"]:
                if t1 == t2:
                    continue
                a1, a2 = active.get(t1), active.get(t2)
                if not a1 or not a2 or a1[1] < a2[0] or a2[1] < a1[0]:
                    continue  # the two threads were never active in the SDK at the same time
                if any(g1 & g2 for g1 in e1["gates"] for g2 in e2["gates"]) and all(g1 & g2 for g1 in e1["gates"] for g2 in e2["gates"]):
                    continue  # every pair of acquisitions is serialised by a common gate lock
                found = (a1[2], a2[2])
        if found:
            inv.append({"a": sites.get(a), "b": sites.get(b), "ab_at": e1["at"], "ba_at": e2["at"], "threads": list(found)})
    site_edges = sorted({"%s -> %s" % (sites.get(a), sites.get(b)) for (a, b) in edges})
    return {"edges": len(edges), "site_edges": site_edges[:40], "inversions": inv, "self_relock": selfs, "acquires": counts["acquires"], "locks": counts["locks"]}
