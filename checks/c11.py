"""C11 - the update stream is always a valid operation history."""
from checks.worldcheck import Spec

PROP = "C11"


def explicit(tier, seed):
    """Response-lost failures of the checkpoint call (the backend committed the batch, the SDK saw an error) and batches filled
    to the size limit while contexts are being started."""
    import random

    rng = random.Random(seed + 3)
    i = 0
    errs = [{"kind": "client", "status": 503, "code": "ServiceUnavailable", "message": "later"},
            {"kind": "client", "status": 429, "code": "TooManyRequestsException", "message": "slow"},
            {"kind": "client", "status": 500, "code": "ServiceException", "message": "boom"},
            {"kind": "plain", "cls": "TimeoutError", "message": "read timeout"}]
    shapes = [
        [{"k": "step", "val": 1}, {"k": "step", "val": 2, "sem": "most"}, {"k": "wait", "s": 1}, {"k": "cb"}, {"k": "step", "val": 3}],
        [{"k": "child", "body": [{"k": "step", "val": 1}, {"k": "wfc", "init": 0, "decisions": [("cont", 1), ("stop",)]}]}, {"k": "invoke", "fn": "f", "payload": 1, "cfg": {"timeout": 9}}],
        [{"k": "par", "branches": [{"body": [{"k": "step", "val": b}, {"k": "step", "val": b + 1}]} for b in range(3)]}, {"k": "step", "val": 9}],
    ]
    for body in shapes:
        for k in range(1, 8 if tier == "quick" else 12):
            for err in (errs if tier != "quick" else rng.sample(errs, 2)):
                yield {"label": "response-lost", "prog": {"body": body}, "prog_seed": 27000 + i, "pattern": {"p": "plain"}, "max_inv": 25,
                       "faults": [{"match": {"op": "checkpoint", "n": k}, "err": err, "when": "after", "delay_ms": rng.choice([0, 10])}], "opts": {"hang_s": 3.0}}
                i += 1
    for j in range(10 if tier == "quick" else 80):
        big = rng.choice([360, 370, 380]) * 1024
        brs = [{"body": [{"k": "step", "script": [{"do": "ok", "big": big}]}]} for _ in range(2)]
        brs += [{"body": [{"k": "child", "body": [{"k": "step", "val": 1}, {"k": "child", "body": [{"k": "step", "val": 2}]}]}, {"k": "step", "val": 3}]} for _ in range(rng.choice([1, 2, 3]))]
        yield {"label": "batch-limit-while-starting-contexts", "prog": {"body": [{"k": "par", "branches": brs, "cfg": {"preset": "all_completed"}}]},
               "prog_seed": 27500 + j, "pattern": {"p": "plain"}, "latency_ms": rng.choice([(5, 20), (20, 50)]),
               "opts": {"perturb": {"p": 0.02, "seed": j}} if j % 2 else {}}


def small_batch_cases(tier, seed):
    import random

    from dw.program import Gen

    rng = random.Random(seed * 7 + 11)
    for j in range(40 if tier == "quick" else 500):
        prog = Gen(random.Random(seed * 1000 + j), kinds=["step", "step", "child", "child", "par", "map", "wfc", "wait"], max_ops=12, max_depth=4).program()
        yield {"label": "small-batches", "prog": prog, "prog_seed": 27800 + j, "pattern": {"p": "plain"}, "latency_ms": rng.choice([None, (0, 5), (5, 20)]),
               "opts": {"targeted": [{"kind": "batcher_config", "max_bytes": rng.randrange(300, 1500), "max_ops": rng.choice([2, 3, 5, 250]),
                                      "window": rng.choice([0.05, 0.5, 1.0])}]}}


def after_result_cases(tier, seed):
    """The execution-level result record (final result over the response limit) is written while a branch abandoned by an early
    completion is still alive; the branch goes on after that record was applied - in the first invocation, or in a resumed one where
    its context was started by an earlier invocation."""
    i = 0
    for kind in ("par", "map"):
        for resumed in (False, True):
            for nxt in ({"k": "step", "val": "late"}, {"k": "wait", "s": 1}, {"k": "child", "body": [{"k": "step", "val": "in"}]}):
                pre = [{"k": "wait", "s": 1}] if resumed else []
                brs = [{"body": pre + [{"k": "step", "val": "fast"}]}, {"body": pre + [{"k": "step", "val": "s0"}, {"k": "gate", "name": "surv"}, dict(nxt), {"k": "step", "val": "tail"}]}]
                node = {"k": "par", "branches": brs, "cfg": {"min_ok": 1}} if kind == "par" else {"k": "map", "items": [0, 1], "per_item": brs, "body": [], "cfg": {"min_ok": 1}}
                yield {"label": "straggler-after-execution-record|%s|%s" % (kind, "resumed" if resumed else "first"),
                       "prog": {"body": [node], "ret": {"big": 6 * 1024 * 1024 + 100}}, "prog_seed": 27900 + i, "pattern": {"p": "plain"}, "max_inv": 8,
                       "world": {"complete": {}, "timers": "all"},
                       "holds": [{"match": {"kind": "gate", "name": "surv"}, "until": {"applied": {"Type": "EXECUTION", "Action": "SUCCEED"}}, "delay_ms": 2}],
                       "opts": {"linger_s": 0.4, "idle_s": 1.0, "hang_s": 3.0}}
                i += 1


def page_fetch_and_late_put_cases(tier, seed):
    """(a) checkpoint responses are paginated (one operation per page) and the fetch of a following page fails: whatever the SDK does
    next, it must not start an operation twice because it never saw the page that showed it started; (b) a straggler's enqueue is
    held (where the SDK allows it to be held) until the execution-level result record has been applied."""
    errs = [{"kind": "client", "status": 429, "code": "TooManyRequestsException", "message": "slow"},
            {"kind": "client", "status": 500, "code": "ServiceException", "message": "boom"},
            {"kind": "client", "status": 400, "code": "ValidationException", "message": "bad"}]
    shapes = [[{"k": "child", "body": [{"k": "wait", "s": 1}, {"k": "step", "val": 1}]}, {"k": "step", "val": 2}],
              [{"k": "child", "body": [{"k": "cb"}]}, {"k": "step", "val": 2}],
              [{"k": "par", "branches": [{"body": [{"k": "invoke", "fn": "f", "payload": 1, "cfg": {"timeout": 9}}]}, {"body": [{"k": "wait", "s": 2}]}], "cfg": {"preset": "all_completed"}}]]
    i = 0
    for body in shapes:
        for nth in range(1, 5 if tier == "quick" else 9):
            yield {"label": "page-fetch-of-a-checkpoint-response-fails", "prog": {"body": body}, "prog_seed": 27950 + i, "pattern": {"p": "plain"}, "max_inv": 16, "max_raises": 4,
                   "pages": {"resp_page": 1}, "faults": [{"match": {"op": "get_state", "n_inv": None}, "err": errs[i % 3], "when": "before", "nth": nth}], "opts": {"hang_s": 3.0}}
            i += 1
    for kind in ("par", "map"):
        for nxt in ({"k": "step", "val": "late"}, {"k": "wait", "s": 1}):
            brs = [{"body": [{"k": "step", "val": "fast"}]}, {"body": [{"k": "step", "val": "s0"}, dict(nxt), {"k": "step", "val": "tail"}]}]
            node = {"k": "par", "branches": brs, "cfg": {"min_ok": 1}} if kind == "par" else {"k": "map", "items": [0, 1], "per_item": brs, "body": [], "cfg": {"min_ok": 1}}
            typ = "STEP" if nxt["k"] == "step" else "WAIT"
            yield {"label": "straggler-enqueue-held-until-execution-record|%s|%s" % (kind, typ), "prog": {"body": [node], "ret": {"big": 6 * 1024 * 1024 + 100}},
                   "prog_seed": 27980 + i, "pattern": {"p": "plain"}, "max_inv": 8,
                   "holds": [{"match": {"kind": "gate", "name_re": r"^put:%s:START:0/b1/1" % typ}, "until": {"applied": {"Type": "EXECUTION", "Action": "SUCCEED"}}, "delay_ms": 2}],
                   "opts": {"linger_s": 0.5, "idle_s": 0.8, "hang_s": 3.0, "targeted": [{"kind": "queue_put", "match": {"action": "START", "type": typ}}]}}
            i += 1


def asymmetric_serdes_cases(tier, seed):
    """Custom serdes that cannot read back what they wrote, on every kind of operation that takes one: whatever the SDK makes of
    that, the operation's record sequence stays a valid lifecycle (in particular nothing after its terminal record)."""
    i = 0
    for sd in ("writeonly", "outage"):
        for body in ([{"k": "child", "body": [{"k": "step", "val": 1}], "cfg": {"serdes": sd}}, {"k": "step", "val": 2}],
                     [{"k": "try", "body": {"k": "child", "body": [{"k": "step", "val": 1}], "cfg": {"serdes": sd}}, "catch": "*"}, {"k": "wait", "s": 1}, {"k": "step", "val": 2}],
                     [{"k": "try", "body": {"k": "step", "val": {"a": 1}, "serdes": sd}, "catch": "*"}, {"k": "wait", "s": 1}, {"k": "step", "val": 2}],
                     [{"k": "try", "body": {"k": "wfc", "init": 0, "decisions": [("cont", 1), ("stop",)], "serdes": sd}, "catch": "*"}, {"k": "step", "val": 2}],
                     [{"k": "par", "branches": [{"body": [{"k": "step", "val": 1}]}, {"body": [{"k": "step", "val": 2}]}], "cfg": {"serdes": sd, "preset": "all_completed"}}, {"k": "wait", "s": 1}, {"k": "step", "val": 3}]):
            yield {"label": "asymmetric-serdes", "prog": {"body": body}, "prog_seed": 27990 + i, "pattern": {"p": "plain"}, "max_inv": 8, "max_raises": 2}
            i += 1


def explicit_all(tier, seed):
    yield from explicit(tier, seed)
    yield from asymmetric_serdes_cases(tier, seed)
    yield from small_batch_cases(tier, seed)
    yield from after_result_cases(tier, seed)
    yield from page_fetch_and_late_put_cases(tier, seed)


SPEC = Spec(
    PROP,
    level="fault_enumeration",
    rule="random programs (all nine operation kinds, nesting<=3) x {uninterrupted with random pagination/latency, every single "
    "crash point of a small-program corpus (before/after each API call, at every probe event), random multi-crash, asynchronous "
    "SIGKILL, LINE-level yield injection}; a per-operation lifecycle automaton runs over the concatenated applied-update stream of "
    "all invocations. A class = (program shape hash, interruption pattern, event kind at which the crash landed); non-trivial = "
    "at least one update was applied. Additional slices: response-lost failures (503/429/500/timeout after the backend committed) at "
    "every call position of three shapes; parallel 360-380 KB results while contexts are being started; random nested programs under "
    "small random batcher configurations (300-1500 bytes, 2-250 operations).",
    deciding=lambda r: len(r["applied"]) > 0,
    explicit=explicit_all,
)
cases = SPEC.cases
run_case = SPEC.run_case
if __name__ == "__main__":
    SPEC.main("checks.c11")
