"""Parent-side driver: one execution = many forked invocations against one Backend.

Single-threaded event loop: handles RPCs (API calls, probe events, gates) from the child in arrival
order, acts as conductor (holds), fault injector, crash injector (SIGKILL) and hang detector.
"""
from __future__ import annotations

import heapq
import os
import random
import re
import select
import signal
import tempfile
import time

import botocore.exceptions  # noqa: F401  (pre-import: children are forked from this process)

from dw import child as _child  # noqa: F401
from dw import interp as _interp  # noqa: F401
from dw import ipc
from dw import targeted as _targeted  # noqa: F401
from dw.backend import TERMINAL, Backend, VClock

_child.import_all_sdk_modules()


def match(ev: dict, pat: dict) -> bool:
    for k, v in pat.items():
        if k == "has_update":
            ups = ev.get("updates") or []
            if not any(all(u.get(kk) == vv for kk, vv in v.items()) for u in ups):
                return False
        elif k == "has":
            if ev.get(v) is None:
                return False
        elif k.endswith("_ge") and isinstance(v, (int, float)):
            if ev.get(k[:-3]) is None or ev.get(k[:-3]) < v:
                return False
        elif k == "name_re":
            if not re.search(v, str(ev.get("name", ""))):
                return False
        elif isinstance(v, (list, tuple, set)) and k.endswith("_in"):
            if ev.get(k[:-3]) not in v:
                return False
        elif ev.get(k) != v:
            return False
    return True


class Execution:
    def __init__(self, scenario: dict):
        self.sc = scenario
        opts = scenario.get("opts", {})
        self.clock = VClock(k=opts.get("k", 50.0))
        self.backend = Backend(self.clock, input_payload=scenario.get("input", "{}"))
        self.backend.timer_lag = float((scenario.get("world") or {}).get("timer_lag", 0.0))
        self.backend.prune_completed = bool((scenario.get("world") or {}).get("prune_completed", False))
        self.backend.lean_step_details = bool((scenario.get("world") or {}).get("lean_step_details", False))
        self.backend.skew = float((scenario.get("world") or {}).get("clock_skew", 0.0))
        self.backend.empty_page_every = int((scenario.get("pages") or {}).get("empty_every", 0))
        self.backend.on_apply = self._on_apply
        self.trace: list[dict] = []
        self.entries: dict[str, int] = {}
        self.inv = 0
        self.api_n = 0  # API calls over the whole execution
        self.rng = random.Random(scenario.get("seed", 0))
        self.world = scenario.get("world", {})
        self.holds = list(scenario.get("holds", []))
        self.faults = list(scenario.get("faults", []))
        self.crashes = list(scenario.get("crashes", []))
        self.invocations: list[dict] = []
        self.first_failure_api: int | None = None
        self.forced_releases = 0
        self.hold_hits = 0
        self.released_gates: list[str] = []
        self._deliver_counts: dict[str, int] = {}

    # ------------------------------------------------------------------ trace
    def rec(self, kind: str, **kw) -> dict:
        ev = {"i": len(self.trace), "inv": self.inv, "kind": kind, "aseq": self.backend.seq}
        ev.update(kw)
        self.trace.append(ev)
        return ev

    # ------------------------------------------------------------------ path -> operation
    def resolve(self, path: str):
        b = self.backend
        if path.endswith("@sub"):
            return b.by_name(path[:-4] + " submitter")
        if path.endswith("@cb"):
            return b.by_name(path[:-3] + " create callback id")
        op = b.by_name(path)
        if op is not None:
            return op
        m = re.match(r"^(.*)/b(\d+)$", path)
        if m:
            parent = self.resolve(m.group(1))
            if parent is None:
                return None
            for oid in b.order:
                o = b.ops[oid]
                if o.get("ParentId") == parent["Id"] and o.get("Name") in (
                    "parallel-branch-" + m.group(2),
                    "map-item-" + m.group(2),
                ):
                    return o
        return None

    def enrich(self, ev: dict, path: str | None) -> None:
        if path is None:
            return
        op = self.resolve(path) if path != "" else None
        if op is not None:
            ev["st"] = op["Status"]
            ev["oid"] = op["Id"]
            if "StepDetails" in op:
                ev["att"] = op["StepDetails"].get("Attempt", 0)
            cd = op.get("ContextDetails")
            if cd:
                ev["rc"] = bool(cd.get("ReplayChildren"))
            cb = op.get("CallbackDetails")
            if cb:
                ev["cbid"] = cb.get("CallbackId")
        else:
            ev["st"] = None
        ev["aseq"] = self.backend.seq

    # ------------------------------------------------------------------ world reactions
    def _world_rule(self, op: dict):
        rules = self.world.get("complete", {})
        name = op.get("Name") or ""
        if name in rules:
            return rules[name]
        if name.endswith(" create callback id") and name[: -len(" create callback id")] in rules:
            return rules[name[: -len(" create callback id")]]
        return self.world.get("default_complete", {"when": "between", "status": "SUCCEEDED", "result": '"ext-ok"'})

    def _on_apply(self, u: dict, op: dict) -> None:
        if u.get("Action") == "START" and op["Type"] in ("CALLBACK", "CHAINED_INVOKE"):
            rule = self._world_rule(op)
            if rule.get("when") == "immediate":
                self._deliver(op, rule)

    def _tick_api_rules(self) -> None:
        """World rule when={'api_after_start': k}: deliver at the k-th checkpoint call after the START was applied."""
        for oid in list(self.backend.awaiting_external()):
            op = self.backend.ops[oid]
            rule = self._world_rule(op)
            w = rule.get("when")
            if isinstance(w, dict) and "api_after_start" in w:
                n = self._deliver_counts.get("api:" + oid, 0) + 1
                self._deliver_counts["api:" + oid] = n
                if n >= w["api_after_start"]:
                    self._deliver(op, rule)

    def _deliver(self, op: dict, rule: dict) -> bool:
        ok = self.backend.complete_external(op["Id"], rule.get("status", "SUCCEEDED"), rule.get("result"), rule.get("error"))
        if ok:
            self.rec("world", what="external", name=op.get("Name"), oid=op["Id"], status=rule.get("status", "SUCCEEDED"),
                     result=rule.get("result"), error=rule.get("error"))
        return ok

    def between_invocations(self) -> bool:
        """World step after a PENDING outcome. Returns True if something changed (wake source fired)."""
        b = self.backend
        changed = False
        deferred = False
        # a timer or external completion that landed while the invocation was still running is a wake-up
        if any(a.get("world") and a["inv"] == b.inv and a["seq"] > self._inv_seq0 for a in b.applied[-200:]):
            changed = True
            self.rec("world", what="woken-by-event-during-invocation")
        if b.fire_due():
            changed = True
        for oid in list(b.awaiting_external()):
            op = b.ops[oid]
            rule = self._world_rule(op)
            when = rule.get("when", "between")
            if when == "never":
                continue
            if when == "after_pendings":
                n = self._deliver_counts.get(oid, 0) + 1
                self._deliver_counts[oid] = n
                if n < rule.get("n", 2):
                    deferred = True
                    continue
            if when in ("between", "after_pendings", "immediate") or isinstance(when, dict):
                if self._deliver(op, rule):
                    changed = True
                    if self.world.get("external_one_at_a_time"):
                        break
        if changed:
            return True
        timers = b.armed_timers()
        if timers:
            t0 = timers[0][0]
            self.clock.advance_to(t0 - b.skew + b.timer_lag + 0.001)
            if self.world.get("timers") == "one":
                b.fire_timer(timers[0][1])
            else:
                b.fire_due()
            self.rec("world", what="timers", fired_until=t0)
            return True
        if deferred:
            self.rec("world", what="spurious")
            return True
        return False

    # ------------------------------------------------------------------ holds / faults / crashes
    def cond(self, c: dict) -> bool:
        if "all" in c:
            return all(self.cond(x) for x in c["all"])
        if "any" in c:
            return any(self.cond(x) for x in c["any"])
        if "never" in c:
            return False
        if "applied" in c:
            pat = c["applied"]
            cnt = 0
            for a in self.backend.applied:
                u = a.get("u")
                if u and all(u.get(k) == v for k, v in pat.items() if k != "count"):
                    cnt += 1
            return cnt >= pat.get("count", 1)
        if "event" in c:
            pat = dict(c["event"])
            this_inv = pat.pop("this_inv", True)
            cnt = pat.pop("count", 1)
            n = 0
            for e in reversed(self.trace):
                if this_inv and e["inv"] != self.inv:
                    break
                if match(e, pat):
                    n += 1
                    if n >= cnt:
                        return True
            return False
        if "released" in c:
            return c["released"] in self.released_gates
        if "arrived" in c:
            return any(h[0].get("name") == c["arrived"] for h in self._held) or c["arrived"] in self.released_gates
        return True

    # ------------------------------------------------------------------ one invocation
    def run_invocation(self, event: dict) -> dict:  # noqa: C901, PLR0912, PLR0915
        sc = self.sc
        opts = sc.get("opts", {})
        warm = bool(opts.get("warm")) and not callable(event)
        wp = getattr(self, "_warm_proc", None)
        if warm and wp is not None:
            # warm sandbox: the process that served the previous invocation serves this one (module state, thread pools, caches and
            # whatever threads the previous invocation left behind are still there); it is waiting for the reply to its inv_end
            pid, c2p_r, p2c_w, reader, dump = wp["pid"], wp["c2p_r"], wp["p2c_w"], wp["reader"], wp["dump"]
            self._warm_proc = None
            self.rec("warm_reuse", pid=pid)
            try:
                ipc.write_frame(p2c_w, (wp["mid"], {"next": {"event": event, "inv": self.inv, "jump": self.clock.jump}}))
            except OSError:
                pass
        else:
            c2p_r, c2p_w = os.pipe()
            p2c_r, p2c_w = os.pipe()
            dump = tempfile.NamedTemporaryFile(prefix="dwdump", suffix=".txt", dir=opts.get("tmpdir", "/dev/shm"), delete=False)
            dump.close()
            if opts.get("exec_child") and not callable(event):
                # a cold start in a NEW interpreter (its own hash seed, import state and module objects), not a fork of this process
                import pickle
                import subprocess
                import sys

                job = tempfile.NamedTemporaryFile(prefix="dwjob", suffix=".pkl", dir=opts.get("tmpdir", "/dev/shm"), delete=False)
                pickle.dump({"sc": sc, "event": event, "clock": (self.clock.k, self.clock.m0, self.clock.v0, self.clock.jump), "inv": self.inv,
                             "dump": dump.name, "wfd": c2p_w, "rfd": p2c_r}, job)
                job.close()
                env = dict(os.environ, PYTHONHASHSEED=str(opts.get("hash_seed_base", 100) + self.inv))
                proc = subprocess.Popen([sys.executable, "-m", "dw.child_exec", job.name], pass_fds=(c2p_w, p2c_r), env=env,
                                        cwd=os.path.dirname(os.path.dirname(os.path.abspath(__file__))))
                pid = proc.pid
                self._procs = getattr(self, "_procs", []) + [proc]
            else:
                pid = os.fork()
            if pid == 0:
                try:
                    os.close(c2p_r)
                    os.close(p2c_w)
                    from dw.child import child_main

                    child_main(c2p_w, p2c_r, sc, event, self.clock, self.inv, dump.name)
                except BaseException:  # noqa: BLE001
                    import traceback

                    traceback.print_exc()
                finally:
                    os._exit(98)
            os.close(c2p_w)
            os.close(p2c_r)
            os.set_blocking(c2p_r, False)
            reader = ipc.FrameReader(c2p_r)
        self._held: list[tuple[dict, int, object, dict]] = []  # (event, mid, response, rule)
        delayed: list[tuple[float, int, int, object]] = []
        dseq = 0
        msg_n = 0
        api_in_inv = 0
        outcome: dict | None = None
        crash = next((c for c in self.crashes if c.get("inv") == self.inv), None)
        kill_at_mono = None
        if crash and "async_after_ms" in crash:
            kill_at_mono = time.monotonic() + crash["async_after_ms"] / 1000.0
        hang_s = opts.get("hang_s", 5.0)
        idle_s = opts.get("idle_s", 0.4)
        last_msg = time.monotonic()
        inv_started = last_msg
        killed = False
        inflight_api = 0
        active_fns = 0
        idle_api = 0
        spin_limit = opts.get("spin_api", 200)
        msg_cap = opts.get("msg_cap", 30000)

        warm_mid = [None]

        def respond(mid, resp):
            if mid:
                try:
                    ipc.write_frame(p2c_w, (mid, resp))
                except OSError:
                    pass

        def kill():
            nonlocal killed
            killed = True
            try:
                os.kill(pid, signal.SIGKILL)
            except ProcessLookupError:
                pass

        def try_release(force=False):
            progressed = True
            while progressed:
                progressed = False
                for h in list(self._held):
                    ev, mid, resp, rule = h
                    if force or self.cond(rule.get("until", {})):
                        self._held.remove(h)
                        if ev["kind"] == "gate":
                            self.released_gates.append(ev.get("name"))
                        self.rec("release", of=ev["i"], name=ev.get("name"), forced=bool(force))
                        d = rule.get("delay_ms")
                        if d and not force:
                            nonlocal dseq
                            dseq += 1
                            heapq.heappush(delayed, (time.monotonic() + d / 1000.0, dseq, mid, resp))
                        else:
                            respond(mid, resp)
                        progressed = True
                        if force:
                            return

        def handle(mid, tname, kind, pl):  # noqa: C901, PLR0912
            nonlocal msg_n, api_in_inv, outcome, dseq, inflight_api, active_fns, idle_api
            if kind in ("clock", "targeted_attached", "contract", "contracts_attached", "thread_exc", "lockorder", "lockorder_self", "lockorder_attached"):
                self.rec(kind, **pl)
                return
            n = msg_n
            msg_n += 1
            if killed:
                # sent before the process died but not yet read: it happened, but nothing is applied or answered
                if kind == "api":
                    self.rec("api", t=tname, n=None, n_inv=None, op=pl["op"], token=pl["kw"].get("CheckpointToken"),
                             updates=pl["kw"].get("Updates") or [], msg_n=n, lost="request", late=True)
                else:
                    ev = self.rec(kind, t=tname, msg_n=n, late=True, **pl)
                    self.enrich(ev, pl.get("path"))
                    if kind == "fn_enter":
                        self.entries[pl["path"]] = self.entries.get(pl["path"], 0) + 1
                        ev["n"] = self.entries[pl["path"]]
                return
            if kind == "fn_enter" and pl.get("fnkind") not in ("handler", "child", "branch"):
                active_fns += 1
                idle_api = 0
            elif kind == "fn_exit" and pl.get("fnkind") not in ("handler", "child", "branch"):
                active_fns -= 1
            if msg_n > msg_cap:
                self.rec("spin", verdict="runaway", why="more than %d messages in one invocation" % msg_cap, api=api_in_inv)
                kill()
                return
            do_kill = crash is not None and crash.get("at") == n and not killed
            if kind == "api":
                self.api_n += 1
                api_in_inv += 1
                kw = pl["kw"]
                updates = kw.get("Updates") or []
                ev = self.rec("api", t=tname, n=self.api_n, n_inv=api_in_inv, op=pl["op"], token=kw.get("CheckpointToken"),
                              marker=kw.get("Marker"), updates=updates, msg_n=n,
                              sizes=[len(str(u.get("Payload") or "")) for u in updates])
                if outcome is not None:
                    ev["after_return"] = True
                if do_kill and crash.get("mode", "before") == "before":
                    ev["lost"] = "request"
                    ev["killed"] = True
                    kill()
                    return
                fault = None
                for f in self.faults:
                    if f.get("_used") and not f.get("sticky"):
                        continue
                    m = {k: v for k, v in f.get("match", {}).items() if k not in ("n_inv", "inv_ge") or v is not None}
                    inv_ge = m.pop("inv_ge", None)
                    if inv_ge is not None and self.inv < inv_ge:
                        continue
                    if match(ev, m):
                        f["_seen"] = f.get("_seen", 0) + 1
                        if f["_seen"] < f.get("nth", 1):
                            continue
                        fault = f
                        f["_used"] = True
                        break
                if fault and fault.get("when", "before") == "before":
                    ev["fault"] = {"when": "before", "err": fault["err"]}
                    if self.first_failure_api is None:
                        self.first_failure_api = self.api_n
                    if fault.get("delay_ms"):  # the failing request stays in flight for a while
                        dseq += 1
                        heapq.heappush(delayed, (time.monotonic() + fault["delay_ms"] / 1000.0, dseq, mid, ("raise", fault["err"])))
                        return
                    respond(mid, ("raise", fault["err"]))
                    return
                seq0 = self.backend.seq
                if pl["op"] == "checkpoint":
                    self._tick_api_rules()
                    resp = self.backend.checkpoint(kw.get("CheckpointToken"), updates, resp_page=self.sc.get("pages", {}).get("resp_page"))
                else:
                    resp = self.backend.get_state(kw.get("CheckpointToken"), kw.get("Marker"))
                ev["applied"] = True
                ev["aseq0"], ev["aseq1"] = seq0, self.backend.seq
                if pl["op"] != "checkpoint":
                    pass
                elif self.backend.seq == seq0 and active_fns <= 0 and not self._held:
                    idle_api += 1
                    if idle_api > spin_limit:
                        self.rec("spin", verdict="spin", api=api_in_inv,
                                 why="%d consecutive API calls with no user function active and no change of the backend table" % idle_api)
                        kill()
                        return
                else:
                    idle_api = 0
                ev["after"] = [(a.get("u") or {}).get("Id") and (a["u"]["Id"], a["u"]["Action"], a["status"]) for a in self.backend.applied if a["seq"] > seq0 and a.get("u")]
                if do_kill:
                    ev["lost"] = "response"
                    ev["killed"] = True
                    kill()
                    return
                if fault:
                    ev["fault"] = {"when": "after", "err": fault["err"]}
                    if self.first_failure_api is None:
                        self.first_failure_api = self.api_n
                    if fault.get("delay_ms"):
                        dseq += 1
                        heapq.heappush(delayed, (time.monotonic() + fault["delay_ms"] / 1000.0, dseq, mid, ("raise", fault["err"])))
                        return
                    respond(mid, ("raise", fault["err"]))
                    return
                out = ("ok", resp)
                rule = self._hold_rule(ev)
                if rule is not None:
                    self.hold_hits += 1
                    if "until" in rule:
                        self._held.append((ev, mid, out, rule))
                        return
                    dseq += 1
                    heapq.heappush(delayed, (time.monotonic() + rule.get("delay_ms", 0) / 1000.0, dseq, mid, out))
                    return
                lat = self.sc.get("latency_ms")
                if lat:
                    dseq += 1
                    heapq.heappush(delayed, (time.monotonic() + self.rng.uniform(lat[0], lat[1]) / 1000.0, dseq, mid, out))
                    return
                respond(mid, out)
                return
            path = pl.get("path")
            ev = self.rec(kind, t=tname, msg_n=n, **pl)
            self.enrich(ev, path)
            if outcome is not None:
                ev["after_return"] = True  # the handler has already returned; threads it left behind are still running (linger)
            if do_kill:
                ev["killed"] = True
                if kind == "fn_enter":
                    self.entries[path] = self.entries.get(path, 0) + 1
                    ev["n"] = self.entries[path]
                kill()
                return
            if kind == "fn_enter":
                self.entries[path] = self.entries.get(path, 0) + 1
                ev["n"] = self.entries[path]
                att = (ev.get("att") or 0) + 1
                respond(mid, {"n": ev["n"], "attempt": att})
                return
            if kind == "gate":
                rule = self._hold_rule(ev)
                if rule is not None:
                    self.hold_hits += 1
                    self._held.append((ev, mid, True, rule))
                    return
                self.released_gates.append(ev.get("name"))
                respond(mid, True)
                return
            if kind == "inv_end":
                outcome = pl
                oc = pl.get("outcome") or {}
                self.rec("returned", t=tname, outcome_kind=oc.get("kind"), status=(oc.get("value") or {}).get("Status") if isinstance(oc.get("value"), dict) else None)
                if warm:
                    warm_mid[0] = mid  # answered by the next invocation (or by the shutdown of the sandbox)
                    return
                respond(mid, True)
                return
            respond(mid, True)

        exit_status = None
        while True:
            now = time.monotonic()
            timeout = 0.05
            if delayed:
                timeout = max(0.0, min(timeout, delayed[0][0] - now))
            if kill_at_mono is not None and not killed:
                timeout = max(0.0, min(timeout, kill_at_mono - now))
            r, _, _ = select.select([c2p_r], [], [], timeout)
            now = time.monotonic()
            if kill_at_mono is not None and not killed and now >= kill_at_mono:
                self.rec("async_kill", after_ms=crash["async_after_ms"])
                kill()
            if r:
                alive = reader.feed()
                got = False
                for fr in reader.frames():
                    got = True
                    handle(*fr)
                    if not killed:
                        try_release()
                if got:
                    last_msg = now
                if not alive:
                    break
            while delayed and delayed[0][0] <= time.monotonic():
                _, _, mid, resp = heapq.heappop(delayed)
                respond(mid, resp)
                last_msg = time.monotonic()
            if killed:
                continue  # drain until EOF
            if outcome is not None:
                if warm and warm_mid[0] is not None and not self._held and not delayed:
                    break  # the sandbox stays up, frozen until the next invocation
                continue
            idle = time.monotonic() - last_msg
            if self._held and not delayed and idle > idle_s:
                self.forced_releases += 1
                try_release(force=True)
                last_msg = time.monotonic()
                continue
            if not self._held and not delayed and idle > hang_s:
                verdict, stacks = self._diagnose_hang(pid, dump.name)
                self.rec("hang", verdict=verdict, stacks=stacks, idle=idle)
                kill()
        if warm and warm_mid[0] is not None and not killed:
            self._warm_proc = {"pid": pid, "c2p_r": c2p_r, "p2c_w": p2c_w, "reader": reader, "dump": dump, "mid": warm_mid[0]}
        else:
            try:
                _, st = os.waitpid(pid, 0)
                exit_status = st
            except ChildProcessError:
                pass
            for pr in getattr(self, "_procs", []):
                if pr.pid == pid and pr.returncode is None:
                    pr.returncode = exit_status if exit_status is not None else 0  # reaped above; keep Popen from waiting again
            os.close(c2p_r)
            os.close(p2c_w)
            try:
                os.unlink(dump.name)
            except OSError:
                pass
        res = {"inv": self.inv, "msgs": msg_n, "api": api_in_inv, "killed": killed, "outcome": outcome, "exit": exit_status,
               "wall": time.monotonic() - inv_started}
        if outcome is None and not killed:
            res["died"] = True
        return res

    def _shutdown_warm(self) -> None:
        wp = getattr(self, "_warm_proc", None)
        self._warm_proc = None
        if wp is None:
            return
        try:
            os.kill(wp["pid"], signal.SIGKILL)
        except ProcessLookupError:
            pass
        try:
            os.waitpid(wp["pid"], 0)
        except ChildProcessError:
            pass
        for fd in (wp["c2p_r"], wp["p2c_w"]):
            try:
                os.close(fd)
            except OSError:
                pass
        try:
            os.unlink(wp["dump"].name)
        except OSError:
            pass

    def _hold_rule(self, ev: dict):
        for h in self.holds:
            if h.get("once") and h.get("_used"):
                continue
            if h.get("inv") is not None and h["inv"] != self.inv:
                continue
            if match(ev, h.get("match", {})):
                h["_used"] = True
                return h
        return None

    def _diagnose_hang(self, pid: int, dumpfile: str):
        def snap():
            try:
                before = os.path.getsize(dumpfile)
                os.kill(pid, signal.SIGUSR1)
                for _ in range(50):
                    time.sleep(0.02)
                    if os.path.getsize(dumpfile) > before:
                        break
                time.sleep(0.05)
                with open(dumpfile) as f:
                    f.seek(before)
                    return f.read()
            except OSError:
                return ""

        a = snap()
        time.sleep(0.7)
        b = snap()
        extra = ""
        try:
            before = os.path.getsize(dumpfile)
            os.kill(pid, signal.SIGUSR2)
            time.sleep(0.4)
            with open(dumpfile) as f:
                f.seek(before)
                extra = f.read()
        except OSError:
            pass

        def norm(s):
            s = re.sub(r"0x[0-9a-f]+", "0x", s)
            s = re.sub(r"line \d+", "line", s)
            return s

        if not a or not b:
            return "inconclusive", a[:3000]
        blocking = ("threading.py", "queue.py", "selectors.py", "ipc.py", "thread.py", "_base.py")
        threads = re.split(r"\n(?=Thread |Current thread )", a)
        all_blocked = True
        import linecache

        for th in threads:
            # the perturbation callback (dw/child.py, on_line) sleeps on behalf of the statement it delays: look through it
            m = next((x for x in re.finditer(r'File "([^"]+)", line (\d+) in (\w+)', th) if not (x.group(1).endswith("dw/child.py") and x.group(3) == "on_line")), None)
            if m and not m.group(1).endswith(blocking) and m.group(3) not in ("_timer_loop", "_collect_checkpoint_batch"):
                # a thread waiting for a lock has no frame inside threading.py: its top frame is the acquiring statement itself
                src = linecache.getline(m.group(1), int(m.group(2)))
                if not re.search(r"^\s*with\s+\S*(lock|mutex|cond|sem)\w*\s*:|\.(acquire|wait|join|result)\(", src, re.I):
                    all_blocked = False
        if norm(a) == norm(b) and all_blocked:
            return "hang", a[:6000] + "\n" + extra[:6000]
        return "inconclusive", a[:3000]

    # ------------------------------------------------------------------ whole execution
    def run(self) -> dict:
        sc = self.sc
        max_inv = sc.get("max_inv", 40)
        max_raises = sc.get("max_raises", 4)
        pages = sc.get("pages", {})
        status = None
        raises = 0
        spurious = self.world.get("spurious", 0)
        t0 = time.monotonic()
        final = None
        stop_reason = None
        while self.inv < max_inv:
            self.inv += 1
            fp = pages.get("first_page")
            if isinstance(fp, list):
                fp = fp[(self.inv - 1) % len(fp)]
            if isinstance(fp, dict):
                fp = fp.get(self.inv, fp.get("default"))
            snap_status = {oid: op["Status"] for oid, op in self.backend.ops.items()}
            event = self.backend.begin_invocation(first_page=fp, page_size=pages.get("page_size"))
            self._inv_seq0 = self.backend.seq
            self.rec("inv_start", first_page=fp, n_ops=len(self.backend.order),
                     terminal=[oid for oid, op in self.backend.ops.items() if op["Status"] in TERMINAL],
                     statuses={oid: op["Status"] for oid, op in self.backend.ops.items()},
                     names={oid: op.get("Name") for oid, op in self.backend.ops.items()},
                     parents={oid: op.get("ParentId") for oid, op in self.backend.ops.items()},
                     pre_fire=snap_status)
            if sc.get("bad_event") is not None:
                event = sc["bad_event"]
            res = self.run_invocation(event)
            self.invocations.append(res)
            oc = res["outcome"]
            self.rec("inv_end_summary", killed=res["killed"], died=res.get("died", False),
                     outcome=None if oc is None else oc["outcome"],
                     dex_alive=None if oc is None else oc.get("dex_alive"),
                     threads=None if oc is None else oc.get("threads"),
                     perturb_hits=None if oc is None else oc.get("perturb_hits"),
                     contract_evals=None if oc is None else oc.get("contract_evals"),
                     exec_result=self.backend.exec_result, msgs=res["msgs"],
                     armed=[(t, oid) for t, oid in self.backend.armed_timers()],
                     awaiting=self.backend.awaiting_external(),
                     statuses={oid: op["Status"] for oid, op in self.backend.ops.items()},
                     now=self.clock.now())
            if any(e["kind"] == "hang" and e["inv"] == self.inv for e in self.trace[-50:]):
                stop_reason = "hang"
                break
            if any(e["kind"] == "spin" and e["inv"] == self.inv for e in self.trace[-300:]):
                stop_reason = "spin"
                break
            if res["killed"] or res.get("died"):
                if res.get("died"):
                    stop_reason = "child-died"
                    break
                continue
            o = oc["outcome"]
            if o["kind"] == "raise":
                raises += 1
                if raises > max_raises:
                    stop_reason = "raised-too-often"
                    final = o
                    break
                continue
            val = o["value"]
            status = val.get("Status") if isinstance(val, dict) else None
            if status in ("SUCCEEDED", "FAILED"):
                final = val
                stop_reason = "terminal"
                break
            if status == "PENDING":
                if spurious > 0:
                    spurious -= 1
                    self.rec("world", what="spurious")
                    continue
                if not self.between_invocations():
                    stop_reason = "stuck-pending"
                    break
                continue
            final = val
            stop_reason = "malformed-outcome"
            break
        else:
            stop_reason = "max-invocations"
        self._shutdown_warm()
        return {
            "scenario": sc,
            "trace": self.trace,
            "final": final,
            "status": status,
            "stop": stop_reason,
            "invocations": self.invocations,
            "applied": self.backend.applied,
            "oddities": self.backend.oddities,
            "ops": self.backend.ops,
            "order": self.backend.order,
            "exec_result": self.backend.exec_result,
            "forced_releases": self.forced_releases,
            "hold_hits": self.hold_hits,
            "wall": time.monotonic() - t0,
            "first_failure_api": self.first_failure_api,
        }


def run_scenario(scenario: dict) -> dict:
    return Execution(scenario).run()
