"""Direct (input-space) monitors for the packaged retry / wait strategy functions (C12, C13)."""
from __future__ import annotations

import math
import random
import re

from aws_durable_execution_sdk_python import config as C
from aws_durable_execution_sdk_python.config import Duration, JitterStrategy
from aws_durable_execution_sdk_python.retries import RetryPresets, RetryStrategyConfig, create_retry_strategy
from aws_durable_execution_sdk_python.waits import WaitStrategyConfig, create_wait_strategy

from dw.monitors import V


class E1(Exception):
    pass


class E2(E1):
    pass


class E3(Exception):
    pass


def _expected_delay(initial, rate, maxd, n, jitter, r):
    base = min(initial * (rate ** (n - 1)), maxd)
    if jitter == "NONE":
        d = base
    elif jitter == "HALF":
        d = base / 2 + r * (base / 2)
    else:
        d = r * base
    return max(1, math.ceil(d)), base


def run_retry_concurrent(case):
    """One strategy object shared by steps that fail at the same moment (the branches of a map / parallel get the same config): the
    decisions of threads consulting it together, for the first time, are the decisions a single caller gets."""
    import sys
    import threading

    rng = random.Random(case["direct_seed"])
    viol, n_eval, classes = [], 0, set()
    old_si = sys.getswitchinterval()
    try:
        sys.setswitchinterval(1e-6)
        for it in range(case.get("n", 40)):
            nf = rng.choice([2, 5, 20, 41, 80])
            nt = rng.choice([2, 4, 8])
            filters = ["no-match-%d.*(" % j for j in range(nf - 1)] + [rng.choice(["boom", re.compile("bo+m")])]
            rng.shuffle(filters) if it % 3 == 0 else None
            cfg = RetryStrategyConfig(max_attempts=5, initial_delay=Duration(1), max_delay=Duration(10), backoff_rate=2, jitter_strategy=JitterStrategy("NONE"),
                                      retryable_errors=filters, retryable_error_types=[])
            strat = create_retry_strategy(cfg)
            errs = [E3("boom"), E3("no match at all"), E3("xx boom yy")]
            want = [True, False, True]
            bar = threading.Barrier(nt)
            got: list = [None] * nt

            def worker(k, strat=strat, errs=errs, bar=bar, got=got):
                bar.wait()
                try:
                    got[k] = [bool(strat(e, 1).should_retry) for e in errs]
                except Exception as e:  # noqa: BLE001
                    got[k] = "raised %s" % type(e).__name__

            ths = [threading.Thread(target=worker, args=(k,)) for k in range(nt)]
            for t in ths:
                t.start()
            for t in ths:
                t.join(10)
            n_eval += nt * len(errs)
            classes.add("concurrent|%d filters|%d threads" % (nf, nt))
            bad = [g for g in got if g != want]
            if bad:
                viol.append(V("C12", "C12/strategy-function/concurrent-first-use-differs", "%d filters, %d threads: decisions %r, a single caller gets %r" % (nf, nt, bad[0], want)))
            # and afterwards the same object still decides as before
            if [bool(strat(e, 1).should_retry) for e in errs] != want:
                viol.append(V("C12", "C12/strategy-function/decisions-changed-after-concurrent-use", "%d filters" % nf))
    finally:
        sys.setswitchinterval(old_si)
    return {"execs": n_eval, "classes": classes, "violations": viol, "obs": {"direct_strategy_evaluations": n_eval, "concurrent_strategy_consultations": n_eval},
            "sample": {"label": "direct-retry-strategy-concurrent", "trials": case.get("n", 40)}}


def run_retry_direct(case):
    if case.get("direct") == "retry-concurrent":
        return run_retry_concurrent(case)
    rng = random.Random(case["direct_seed"])
    viol = []
    n_eval = 0
    classes = set()
    samples = []
    orig = C.random.random
    try:
        for _ in range(case.get("n", 150)):
            maxa = rng.choice([1, 2, 3, 5, 10, 20])
            initial = rng.choice([0, 1, 2, 5, 30, 600])
            maxd = rng.choice([0, 1, 3, 60, 300, 600])
            rate = rng.choice([1, 1.5, 2, 3, 4])
            jitter = rng.choice(["NONE", "FULL", "HALF"])
            filt = rng.choice([None, "msg", "re", "types", "both", "empty", "mixed", "mixed"])
            kw = {}
            mixed = None
            if filt == "mixed":
                # 1-3 filters: plain strings that contain regex metacharacters (substring semantics), and compiled patterns whose
                # flags, anchors and alternations matter
                pool = ["boom", "b.om", "a|b", "(x", "Rate", "[", "^boom", "$",
                        re.compile("throttl", re.I), re.compile(r"^rate.exceeded$", re.I | re.M), re.compile(r"a.b", re.S),
                        re.compile(r"bo{2}m"), re.compile(r"  b o o m  ", re.X), re.compile(r"x|boom$"), re.compile(r"(?i)ZZZ")]
                mixed = [rng.choice(pool) for _ in range(rng.randrange(1, 4))]
                kw["retryable_errors"] = list(mixed)
                if rng.random() < 0.3:
                    kw["retryable_error_types"] = [E1]
            if filt in ("msg", "both"):
                kw["retryable_errors"] = ["boom"]
            if filt == "re":
                kw["retryable_errors"] = [re.compile(r"b.om$")]
            if filt in ("types", "both"):
                kw["retryable_error_types"] = [E1]
            if filt == "empty":
                kw["retryable_errors"] = []
            cfg = RetryStrategyConfig(max_attempts=maxa, initial_delay=Duration(initial), max_delay=Duration(maxd), backoff_rate=rate,
                                      jitter_strategy=JitterStrategy(jitter), **kw)
            try:
                strat = create_retry_strategy(cfg)
            except Exception as e:  # noqa: BLE001
                viol.append(V("C12", "C12/strategy-function/raised/%s" % type(e).__name__, "create_retry_strategy raised %r for filters %r" % (e, kw.get("retryable_errors"))))
                continue
            errs = [E1("boom"), E2("other"), E3("boom"), E3("zzz")]
            if mixed is not None:
                errs += [E3(m) for m in rng.sample(["ThrottlingException: Rate exceeded", "first line\nrate exceeded\nlast", "a\nb", "a|b", "b.om", "(x)",
                                                     "BOOM", "x", "", "[", "RATE", "boom "], 5)]
            for err in errs:
                if mixed is not None:
                    msg_ok = any((pt.search(str(err)) is not None) if isinstance(pt, re.Pattern) else (pt in str(err)) for pt in mixed)
                else:
                    msg_ok = {"msg": "boom" in str(err), "both": "boom" in str(err), "re": bool(re.search(r"b.om$", str(err))),
                              None: True, "types": False, "empty": False}[filt]
                type_ok = isinstance(err, E1) if (filt in ("types", "both") or "retryable_error_types" in kw) else False
                matches = msg_ok or type_ok
                for attempts in range(1, maxa + 3):
                    for r in (0.0, 1.0 - 2**-53, rng.random()):
                        C.random.random = lambda r=r: r
                        try:
                            d = strat(err, attempts)
                        except Exception as e:  # noqa: BLE001
                            viol.append(V("C12", "C12/strategy-function/raised/%s" % type(e).__name__, "strategy raised %r for err=%r filters %r" % (e, err, kw.get("retryable_errors"))))
                            break
                        n_eval += 1
                        want_retry = attempts < maxa and matches
                        classes.add("%s|%s|%s|%s" % (jitter, filt, want_retry, attempts >= maxa))
                        if bool(d.should_retry) != want_retry:
                            viol.append(V("C12", "C12/strategy-function/should-retry-wrong",
                                          "max_attempts=%d attempts=%d filter=%s err=%r -> should_retry=%s" % (maxa, attempts, filt, err, d.should_retry)))
                            continue
                        if not want_retry:
                            continue
                        exp, base = _expected_delay(initial, rate, maxd, attempts, jitter, r)
                        got = d.delay_seconds
                        if not isinstance(got, int) or got < 1 or got > max(1, maxd):
                            viol.append(V("C12", "C12/strategy-function/delay-out-of-bounds", "delay %r not in [1,%d] (cfg %s)" % (got, max(1, maxd), (maxa, initial, maxd, rate, jitter))))
                        elif got != exp:
                            viol.append(V("C12", "C12/strategy-function/delay-not-backoff-formula/%s" % jitter, "delay %r, expected %r (cfg %s n=%d r=%r)" % (got, exp, (maxa, initial, maxd, rate, jitter), attempts, r)))
            if len(samples) < 2:
                samples.append({"max_attempts": maxa, "initial": initial, "max_delay": maxd, "rate": rate, "jitter": jitter, "filter": filt})
        # presets
        presets = {"none": (1, 5, 300, 2, "FULL"), "default": (6, 5, 60, 2, "FULL"), "transient": (3, 5, 300, 2, "HALF"),
                   "resource_availability": (5, 5, 300, 2, "FULL"), "critical": (10, 1, 60, 1.5, "NONE")}
        for name, (maxa, initial, maxd, rate, jitter) in presets.items():
            strat = getattr(RetryPresets, name)()
            for attempts in range(1, maxa + 2):
                for r in (0.0, 1.0 - 2**-53, rng.random()):
                    C.random.random = lambda r=r: r
                    d = strat(ValueError("x"), attempts)
                    n_eval += 1
                    classes.add("preset|%s|%s" % (name, attempts < maxa))
                    if bool(d.should_retry) != (attempts < maxa):
                        viol.append(V("C12", "C12/strategy-function/preset-should-retry-wrong", "%s attempts=%d" % (name, attempts)))
                    elif d.should_retry:
                        exp, _ = _expected_delay(initial, rate, maxd, attempts, jitter, r)
                        if d.delay_seconds != exp:
                            viol.append(V("C12", "C12/strategy-function/preset-delay-wrong", "%s attempts=%d delay %r expected %r" % (name, attempts, d.delay_seconds, exp)))
    finally:
        C.random.random = orig
    return {"execs": n_eval, "classes": classes, "violations": viol, "obs": {"direct_strategy_evaluations": n_eval},
            "sample": {"label": "direct-retry-strategy", "configs": samples}}


def run_wait_direct(case):
    rng = random.Random(case["direct_seed"])
    viol = []
    n_eval = 0
    classes = set()
    orig = C.random.random
    samples = []
    try:
        for _ in range(case.get("n", 150)):
            maxa = rng.choice([1, 2, 3, 10, 60])
            initial = rng.choice([0, 1, 5, 30])
            maxd = rng.choice([0, 1, 10, 300])
            rate = rng.choice([1, 1.5, 2, 3])
            jitter = rng.choice(["NONE", "FULL", "HALF"])
            thresh = rng.randrange(0, 5)
            cfg = WaitStrategyConfig(should_continue_polling=lambda s, t=thresh: s < t, max_attempts=maxa, initial_delay=Duration(initial),
                                     max_delay=Duration(maxd), backoff_rate=rate, jitter_strategy=JitterStrategy(jitter))
            strat = create_wait_strategy(cfg)
            for state in range(0, 6):
                for attempts in range(1, min(maxa, 12) + 2):
                    for r in (0.0, 1.0 - 2**-53, rng.random()):
                        C.random.random = lambda r=r: r
                        d = strat(state, attempts)
                        n_eval += 1
                        want = state < thresh and attempts < maxa
                        classes.add("%s|%s|%s" % (jitter, want, attempts >= maxa))
                        if bool(d.should_wait) != want:
                            viol.append(V("C13", "C13/wait-strategy-function/decision-wrong", "state=%d thresh=%d attempts=%d max=%d -> %s" % (state, thresh, attempts, maxa, d.should_wait)))
                        elif want:
                            exp, _ = _expected_delay(initial, rate, maxd, attempts, jitter, r)
                            if d.delay_seconds != exp or d.delay_seconds < 1:
                                viol.append(V("C13", "C13/wait-strategy-function/delay-wrong", "delay %r expected %r" % (d.delay_seconds, exp)))
            if len(samples) < 2:
                samples.append({"max_attempts": maxa, "initial": initial, "max_delay": maxd, "rate": rate, "jitter": jitter})
    finally:
        C.random.random = orig
    return {"execs": n_eval, "classes": classes, "violations": viol, "obs": {"direct_strategy_evaluations": n_eval},
            "sample": {"label": "direct-wait-strategy", "configs": samples}}
