"""Check harness: shard cases over worker subprocesses, aggregate, classify against known findings,
write evidence, print verdict lines, return the exit code (0 held / 1 violation / 2 inconclusive)."""
from __future__ import annotations

import base64
import fnmatch
import hashlib
import importlib
import json
import os
import pickle
import subprocess
import sys
import time

ROOT = os.path.dirname(os.path.dirname(os.path.abspath(__file__)))
PY = "/venv/bin/python"


def ensure_deps():
    deps = os.path.join(ROOT, ".deps")
    if not os.path.isdir(os.path.join(deps, "icontract")):
        subprocess.run([os.path.join(ROOT, "setup.sh")], check=False, stdout=subprocess.DEVNULL, stderr=subprocess.DEVNULL)
    if deps not in sys.path:
        sys.path.append(deps)


def load_known():
    p = os.path.join(ROOT, "known_findings.json")
    if not os.path.exists(p):
        return []
    with open(p) as f:
        return json.load(f).get("findings", [])


def save_replay(prop: str, case: dict, viol: dict, extra: dict | None = None) -> str:
    d = os.environ.get("VERIF_REPLAY_DIR") or os.path.join(ROOT, "out", "replays")
    os.makedirs(d, exist_ok=True)
    blob = pickle.dumps(case)
    h = hashlib.sha1(blob + viol["key"].encode()).hexdigest()[:12]
    path = os.path.join(d, "%s-%s.json" % (prop, h))
    doc = {"property": prop, "key": viol["key"], "msg": viol["msg"], "case_repr": repr(case)[:4000],
           "case_pickle_b64": base64.b64encode(blob).decode()}
    if extra:
        doc.update(extra)
    with open(path, "w") as f:
        json.dump(doc, f, indent=1, default=str)
    return path


def load_replay(path: str) -> dict:
    with open(path) as f:
        doc = json.load(f)
    return pickle.loads(base64.b64decode(doc["case_pickle_b64"]))  # noqa: S301


def run_sharded(module: str, tier: str, seed: int, nshards: int = 16, timeout: float = 3000.0, extra_args=()):
    outdir = os.path.join(ROOT, "out", "tmp")
    os.makedirs(outdir, exist_ok=True)
    procs = []
    env = dict(os.environ)
    env["PYTHONHASHSEED"] = "0"
    env["PYTHONPATH"] = ROOT + os.pathsep + os.path.join(ROOT, ".deps") + os.pathsep + env.get("PYTHONPATH", "")
    ctr = os.path.join(outdir, "%s-%d-%d.ctr" % (module.replace(".", "_"), os.getpid(), seed))
    if os.path.exists(ctr):
        os.unlink(ctr)
    for sh in range(nshards):
        out = os.path.join(outdir, "%s-%d-%d-%d.pkl" % (module.replace(".", "_"), os.getpid(), seed, sh))
        cmd = [PY, "-m", "dw.worker", module, tier, str(seed), str(sh), str(nshards), out, *extra_args]
        procs.append((subprocess.Popen(cmd, cwd=ROOT, env=env, stdout=subprocess.PIPE, stderr=subprocess.STDOUT), out, sh))
    results = []
    deadline = time.monotonic() + timeout
    failed = []
    for p, out, sh in procs:
        try:
            so, _ = p.communicate(timeout=max(1.0, deadline - time.monotonic()))
        except subprocess.TimeoutExpired:
            p.kill()
            so, _ = p.communicate()
            failed.append((sh, "timeout", so.decode(errors="replace")[-2000:]))
            continue
        if p.returncode != 0 or not os.path.exists(out):
            failed.append((sh, "exit %s" % p.returncode, so.decode(errors="replace")[-3000:]))
            continue
        with open(out, "rb") as f:
            results.append(pickle.load(f))  # noqa: S301
        os.unlink(out)
    if os.path.exists(ctr):
        os.unlink(ctr)
    return results, failed


def aggregate(results: list[dict]) -> dict:
    agg = {"cases": 0, "execs": 0, "invs": 0, "api": 0, "classes": set(), "violations": [], "obs": {}, "samples": [],
           "interleavings": set()}
    for r in results:
        agg["cases"] += r.get("cases", 0)
        agg["execs"] += r.get("execs", 0)
        agg["invs"] += r.get("invs", 0)
        agg["api"] += r.get("api", 0)
        agg["classes"] |= set(r.get("classes", ()))
        agg["interleavings"] |= set(r.get("interleavings", ()))
        agg["violations"].extend(r.get("violations", []))
        for k, v in r.get("obs", {}).items():
            if isinstance(v, (int, float)):
                agg["obs"][k] = agg["obs"].get(k, 0) + v
            elif isinstance(v, (set, list, tuple)):
                agg["obs"].setdefault(k, set()).update(v)
        if len(agg["samples"]) < 4:
            agg["samples"].extend(r.get("samples", [])[: 4 - len(agg["samples"])])
    return agg


def finish(prop: str, tier: str, seed: int, level: str, agg: dict, failed: list, rule: str, assumptions: list[str],
           t0: float, minima: dict | None = None, extra_cov: dict | None = None) -> int:
    known = load_known()
    viols = agg["violations"]
    unknown, knownhits = [], {}
    for v in viols:
        if v["prop"] != prop:
            continue
        hit = next((k for k in known if k["property"] == prop and fnmatch.fnmatchcase(v["key"], k["key"])), None)
        if hit:
            knownhits.setdefault(hit["key"], [hit, 0])[1] += 1
        else:
            unknown.append(v)
    obs = {k: (sorted(v)[:50] if isinstance(v, set) else v) for k, v in agg["obs"].items()}
    cov = {
        "evaluations": int(agg["execs"]),
        "distinct_nontrivial": len(agg["classes"]),
        "rule": rule,
        "samples": agg["samples"][:4] or ["<none>"],
        "cases": agg["cases"],
        "invocations": agg["invs"],
        "api_calls": agg["api"],
        "distinct_interleavings_observed": len(agg["interleavings"]),
        "monitor_observations": obs,
        "known_finding_hits": {k: n for k, (_h, n) in knownhits.items()},
        "worker_failures": [(sh, why) for sh, why, _ in failed],
    }
    if extra_cov:
        cov.update(extra_cov)
    ev = {
        "property_id": prop,
        "tier": tier,
        "seed": seed,
        "level": level,
        "coverage": cov,
        "assumptions": assumptions,
        "wall_s": round(time.monotonic() - t0, 2),
        "violations": len(unknown),
    }
    evdir = os.environ.get("VERIF_EVIDENCE_DIR") or os.path.join(ROOT, "evidence")
    os.makedirs(evdir, exist_ok=True)
    with open(os.path.join(evdir, "%s.json" % prop), "w") as f:
        json.dump(ev, f, indent=1, default=str)
    for _k, (hit, n) in sorted(knownhits.items()):
        print("KNOWN-FINDING: property=%s %s [%s] (%d occurrences this run)" % (prop, hit["summary"], hit["key"], n))
    rc = 0
    seen = set()
    for v in unknown:
        if v["key"] in seen:
            continue
        seen.add(v["key"])
        print("VIOLATION property=%s replay=%s  # %s: %s" % (prop, v.get("replay", "<none>"), v["key"], v["msg"][:300]))
        rc = 1
    inconclusive = []
    if failed:
        for sh, why, tail in failed:
            print("worker %s failed: %s\n%s" % (sh, why, tail), file=sys.stderr)
        inconclusive.append("%d worker(s) failed" % len(failed))
    for k, mn in (minima or {}).items():
        got = agg["obs"].get(k, 0)
        got = len(got) if isinstance(got, set) else got
        if got < mn:
            inconclusive.append("monitor counter %s=%s below minimum %s" % (k, got, mn))
    if len(agg["classes"]) < 2:
        inconclusive.append("fewer than 2 distinct non-trivial classes observed")
    if rc == 0 and inconclusive:
        print("INCONCLUSIVE property=%s %s" % (prop, "; ".join(inconclusive)))
        rc = 2
    print("%s %s seed=%d: %d executions, %d invocations, %d classes, %d unknown violation(s), %d known-finding class(es), %.1fs -> %s"
          % (prop, tier, seed, agg["execs"], agg["invs"], len(agg["classes"]), len(unknown), len(knownhits),
             time.monotonic() - t0, {0: "held on what was observed", 1: "VIOLATED", 2: "INCONCLUSIVE"}[rc]))
    return rc


def main_for(module: str, prop: str, level: str, rule: str, assumptions: list[str], minima: dict | None = None,
             nshards: int = 16, argv=None):
    import argparse

    ap = argparse.ArgumentParser()
    ap.add_argument("--tier", default=os.environ.get("VERIF_TIER", "quick"))
    ap.add_argument("--seed", type=int, default=int(os.environ.get("VERIF_SEED", "0")))
    ap.add_argument("--replay")
    a = ap.parse_args(argv)
    ensure_deps()
    t0 = time.monotonic()
    if a.replay:
        mod = importlib.import_module(module)
        case = load_replay(a.replay)
        res = mod.run_case(case)
        vs = [v for v in res.get("violations", []) if v["prop"] == prop]
        for v in vs:
            print("VIOLATION property=%s replay=%s  # %s: %s" % (prop, a.replay, v["key"], v["msg"][:300]))
        print("replay: %d violation(s) reproduced" % len(vs))
        return 1 if vs else 0
    results, failed = run_sharded(module, a.tier, a.seed, nshards=nshards)
    agg = aggregate(results)
    return finish(prop, a.tier, a.seed, level, agg, failed, rule, assumptions, t0, minima)
