#!/bin/sh
# Offline setup: install the contract libraries beside the repository's interpreter (into /verif/.deps).
set -e
cd "$(dirname "$0")"
if [ ! -d .deps/icontract ]; then
  /venv/bin/pip install --quiet --no-index --find-links /opt/veriftools/wheels --target .deps icontract deal >/dev/null 2>&1 || \
  /venv/bin/pip install --no-index --find-links /opt/veriftools/wheels --target .deps icontract deal
fi
mkdir -p out evidence
echo "setup ok"
