"""Generic world-engine check: random programs x interruption patterns, judged by the property's monitors."""
from __future__ import annotations

import copy
import hashlib
import random
import sys
import time

from checks import world as W
from dw import harness
from dw.backend import TERMINAL
from dw.driver import run_scenario
from dw.monitors import V, final_sig

ASSUME = [
    "backend simulator semantics of DESIGN.md 1.1 (Attempt = number of recorded retries; timers fire lazily; permissive)",
    "single total order of events: every probe event is a synchronous RPC to the single-threaded parent",
    "virtual clock dilation K=50 with polling timeouts divided by K (a K=1 slice runs in the thorough tier)",
    "CPython 3.12, fork-per-invocation (cold start) or, in the warm slices, one forked process serving all invocations of an execution; a crash is SIGKILL of the process",
]


THOROUGH_SCALE = 3  # the thorough tier explores three times the per-check random-program budgets listed in the Specs


def h8(s: str) -> str:
    return hashlib.sha1(s.encode()).hexdigest()[:8]


def replayed_delivery(r) -> bool:
    term_by_inv = {}
    for e in r["trace"]:
        if e["kind"] == "inv_start":
            term_by_inv[e["inv"]] = {o for o, s in e["statuses"].items() if s in TERMINAL}
        elif e["kind"] in ("ret", "exc") and e.get("oid") in term_by_inv.get(e["inv"], ()):
            return True
    return False


class Spec:
    def __init__(self, prop, props=None, gen=None, deciding=None, quick=None, thorough=None, level="exploration",
                 rule="", minima=None, compare_final=False, extra_judge=None, small_gen=None, explicit=None, det=False,
                 direct=None):
        self.prop = prop
        self.props = props or [prop]
        self.gen = gen or {}
        self.small_gen = small_gen or dict(self.gen, max_ops=4, max_depth=2)
        self.deciding = deciding or (lambda r: True)
        self.quick = quick or {"plain": 120, "enum": 24, "rand": 40, "async": 24, "perturb": 0}
        self.thorough = thorough or {"plain": 800, "enum": 220, "rand": 400, "async": 200, "perturb": 120, "k1": 12}
        self.level = level
        self.rule = rule
        self.minima = minima or {}
        self.compare_final = compare_final
        self.extra_judge = extra_judge
        self.explicit = explicit  # callable(tier, seed) -> extra hand-written cases
        self.det = det
        self.direct = direct  # callable(case) -> result dict, for cases with "direct" key

    # -------------------------------------------------------------- cases
    def cases(self, tier, seed):
        for c in self._cases(tier, seed):
            if self.det:
                c["det"] = True
            yield c

    def _cases(self, tier, seed):
        n = self.quick if tier == "quick" else {k: (v * THOROUGH_SCALE if k != "k1" else v) for k, v in self.thorough.items()}
        if tier != "quick" and self.level == "fault_enumeration" and "pairs" not in n and n.get("enum", 0) > 0:
            n["pairs"] = 40  # two-crash enumeration on tiny programs
        if tier == "quick" and self.level == "fault_enumeration" and "pairs" not in n and n.get("enum", 0) > 0:
            n["pairs"] = 2
        base = seed * 100003
        i = 0
        if self.explicit:
            for c in self.explicit(tier, seed):
                yield c
        PG = [{"first_page": 1, "page_size": 1}, {"first_page": 1, "page_size": 1, "empty_every": 2}, {"first_page": 0, "page_size": 2, "empty_every": 1},
              {"first_page": 2, "page_size": 2, "resp_page": 1}, {"resp_page": 0}, {"first_page": 1, "page_size": 2, "resp_page": 0, "empty_every": 3}]
        for j in range(n.get("enum", 0)):
            c = {"label": "crash-enum", "prog_seed": base + i, "gen": self.small_gen, "pattern": {"p": "crash_enum"}}
            if j % 3 == 2:  # the histories left by the crashes are delivered in pages (some of them empty but carrying a marker)
                c["label"] = "crash-enum-paged"
                c["pages"] = PG[(j // 3) % len(PG)]
            yield c
            i += 1
        for j in range(n.get("pairs", 0)):
            yield {"label": "crash-pairs", "prog_seed": base + i, "gen": dict(self.small_gen, max_ops=3), "pattern": {"p": "crash_pairs"}}
            i += 1
        for j in range(n.get("plain", 0)):
            rng = random.Random(base + i)
            yield {"label": "plain" if j % 3 != 2 else "plain-warm", "prog_seed": base + i, "gen": self.gen, "pattern": {"p": "plain"},
                   "pages": rng.choice([{}, {"first_page": 1, "page_size": 1}, {"first_page": 2, "page_size": 3},
                                        {"first_page": 1, "page_size": 50, "resp_page": 1}, {"first_page": 0, "page_size": 2},
                                        {"resp_page": 2}, {"first_page": 1, "page_size": 1, "empty_every": 2}, {"first_page": 0, "page_size": 2, "empty_every": 1},
                                        {"resp_page": 1, "empty_every": 2}, {"resp_page": 0}, {"resp_page": 0, "first_page": 1, "page_size": 1}]),
                   "latency_ms": rng.choice([None, None, (0, 3)]),
                   # every third uninterrupted run is served by ONE warm sandbox: the same process (module state, caches, pools, the
                   # decorated handler object) handles every invocation of the execution, as a reused Lambda environment does
                   "opts": {"warm": True} if j % 3 == 2 else {}}
            i += 1
        for j in range(n.get("rand", 0)):
            yield {"label": "crash-random" if j % 3 != 1 else "crash-random-warm", "prog_seed": base + i, "gen": self.gen, "pattern": {"p": "crash_random", "n": 1 + j % 3},
                   "opts": {"warm": True} if j % 3 == 1 else {}, "pages": PG[j % len(PG)] if j % 4 == 3 else {}}
            i += 1
        for j in range(n.get("async", 0)):
            yield {"label": "async-kill", "prog_seed": base + i, "gen": self.gen, "pattern": {"p": "async_kill"}}
            i += 1
        n_pert = n.get("perturb", 0)
        if tier == "quick" and not n_pert and n.get("plain", 0) > 0:
            n_pert = 6  # every random-program check gets a few perturbed schedules on every change
        for j in range(n_pert):
            if j % 3 == 2:
                # after-sync: the thread that signals / publishes / hands over is descheduled right afterwards
                pert = {"p": 0.0, "seed": base + i, "after_sync": {"p": 0.6, "sleep": 0.003}}
            else:
                pert = {"p": 0.03, "seed": base + i, "pct": {"change": 0.002} if j % 2 else None}
            yield {"label": "perturb" if j % 3 != 2 else "perturb-after-sync", "prog_seed": base + i, "gen": self.gen, "pattern": {"p": "plain"},
                   "opts": {"perturb": pert}}
            i += 1
        n_exec = n.get("exec", (3 if tier == "quick" else 12) if n.get("plain", 0) > 0 else 0)
        for j in range(n_exec):
            # every invocation is a cold start in a NEW interpreter (exec, not fork) with its own hash seed: nothing that lives only in
            # one process - string hashes, object identities, module state - may leak into what is recorded
            yield {"label": "plain-new-interpreter-per-invocation", "prog_seed": base + i, "gen": dict(self.gen, max_ops=min(self.gen.get("max_ops", 10), 7)),
                   "pattern": {"p": "plain"}, "opts": {"exec_child": True, "hash_seed_base": 100 + 17 * j}, "max_inv": 14}
            i += 1
        for j in range(n.get("k1", 0)):
            yield {"label": "k1-real-polling", "prog_seed": base + i, "gen": self.small_gen, "pattern": {"p": "plain"},
                   "opts": {"k": 1.0, "poll_div": 1.0}}
            i += 1

    # -------------------------------------------------------------- one case
    def judge_one(self, acc, r, sc, label, ref_sig=None):
        extra = []
        if self.extra_judge:
            extra = self.extra_judge(r) or []
        if self.compare_final and ref_sig is not None and r["stop"] not in ("hang",):
            sig = final_sig(r)
            interrupted_amo = any(
                (e["kind"] == "strategy" and e.get("err") == "StepInterruptedError")
                or (e["kind"] == "exc" and e.get("cls") == "StepInterruptedError")
                for e in r["trace"]
            )
            if sig != ref_sig and not interrupted_amo:
                from dw.program import walk

                raising_wfc = any(n["k"] == "wfc" and any(c.get("do") == "fail" for c in n.get("checks") or [])
                                  for _p, n in walk(r["scenario"]["prog"]["body"]))
                key = "%s/final-outcome-differs/%s-vs-%s" % (self.prop, ref_sig[0], sig[0])
                if raising_wfc:
                    key = "%s/final-outcome-differs/program-has-raising-wait-for-condition-check" % self.prop
                extra.append(V(self.prop, key,
                               "interrupted run ended %s, uninterrupted reference %s" % (str(sig)[:150], str(ref_sig)[:150])))
        def cls(r):
            if self.deciding(r):
                return "%s|%s|%s|%s" % (h8(W.shape_of(r["scenario"]["prog"])), label, W.crash_label(r, None), r.get("stop") if r.get("stop") != "terminal" else r.get("status"))
            return None

        acc.add(r, self.props, cls=cls, sc=sc, extra_viol=extra)

    def run_case(self, case):
        if "direct" in case:
            return self.direct(case)
        if "C07" in self.props and "exact_scenario" not in case:
            case = dict(case, opts=dict(case.get("opts") or {}, lockorder=True))  # lock-order sanitizer on (its verdicts belong to C07)
        acc = W.Acc(case)
        if "exact_scenario" in case:
            sc = copy.deepcopy(case["exact_scenario"])
            r = run_scenario(copy.deepcopy(sc))
            ref = None
            if self.compare_final and sc.get("crashes"):
                sc0 = copy.deepcopy(sc)
                sc0["crashes"] = []
                ref = final_sig(run_scenario(sc0))
            self.judge_one(acc, r, sc, case.get("label", "replay"), ref)
            return acc.out
        sc = W.base_scenario(case)
        pat = case["pattern"]
        p = pat["p"]
        t_case = time.monotonic()
        budget = case.get("case_budget_s", 150.0)  # wall-clock cap per case: cuts enumeration short, never a verdict
        rng = random.Random(case.get("prog_seed", 0) * 31 + 7)
        if p == "plain":
            r = run_scenario(copy.deepcopy(sc))
            self.judge_one(acc, r, sc, case["label"] + (":pg" if case.get("pages") else ""))
            return acc.out
        r0 = run_scenario(copy.deepcopy(sc))
        ref = final_sig(r0)
        self.judge_one(acc, r0, sc, case["label"] + ":ref")
        pts = W.crash_points(r0)
        if p == "crash_enum":
            mx = pat.get("max_points")
            if mx and len(pts) > mx:
                pts = rng.sample(pts, mx)
            if len(pts) > 500:
                pts = rng.sample(pts, 500)
            acc.out["obs"]["crash_points_enumerated"] = len(pts)
            for pt in pts:
                if time.monotonic() - t_case > budget:
                    acc.out["obs"]["cases_cut_short_by_time_budget"] = 1
                    break
                sc1 = copy.deepcopy(sc)
                sc1["crashes"] = [pt]
                r = run_scenario(copy.deepcopy(sc1))
                self.judge_one(acc, r, sc1, "enum", ref)
        elif p == "crash_pairs":
            # two crashes: every first crash point (capped), and for each the crash points of the invocations that follow it in THAT run
            first = pts if len(pts) <= pat.get("max_first", 40) else rng.sample(pts, pat.get("max_first", 40))
            n_pairs = 0
            for pt in first:
                if time.monotonic() - t_case > budget:
                    acc.out["obs"]["cases_cut_short_by_time_budget"] = 1
                    break
                sc1 = copy.deepcopy(sc)
                sc1["crashes"] = [pt]
                r1 = run_scenario(copy.deepcopy(sc1))
                self.judge_one(acc, r1, sc1, "enum", ref)
                later = [q for q in W.crash_points(r1) if q["inv"] > pt["inv"]]
                if len(later) > pat.get("max_second", 8):
                    later = rng.sample(later, pat.get("max_second", 8))
                for q in later:
                    if time.monotonic() - t_case > budget:
                        break
                    sc2 = copy.deepcopy(sc)
                    sc2["crashes"] = [pt, q]
                    r2 = run_scenario(copy.deepcopy(sc2))
                    self.judge_one(acc, r2, sc2, "enum2", ref)
                    n_pairs += 1
            acc.out["obs"]["crash_pairs_enumerated"] = n_pairs
        elif p == "crash_random":
            for _ in range(3):
                sc1 = copy.deepcopy(sc)
                chosen = rng.sample(pts, min(len(pts), pat.get("n", 2)))
                byinv = {}
                for c in chosen:
                    byinv.setdefault(c["inv"], c)
                # later crashes shift invocation numbers: crash k adds one invocation
                crashes = []
                shift = 0
                for inv in sorted(byinv):
                    c = dict(byinv[inv])
                    c["inv"] = inv + shift
                    crashes.append(c)
                    shift += 1
                sc1["crashes"] = crashes
                r = run_scenario(copy.deepcopy(sc1))
                self.judge_one(acc, r, sc1, "rand%d" % len(crashes), ref)
        elif p == "async_kill":
            walls = [i["wall"] for i in r0["invocations"]]
            for _ in range(3):
                j = rng.randrange(len(walls))
                sc1 = copy.deepcopy(sc)
                sc1["crashes"] = [{"inv": j + 1, "async_after_ms": rng.uniform(0.5, max(1.0, walls[j] * 1000))}]
                r = run_scenario(copy.deepcopy(sc1))
                self.judge_one(acc, r, sc1, "async", ref)
        return acc.out

    def main(self, module):
        generic = (" Generic slices of every world check with random programs: every third uninterrupted and every third random-crash run is served "
                   "by one warm process (reused sandbox); perturbed schedules (random LINE-level yields, PCT-like thread priorities, after-sync "
                   "descheduling); a few runs in which every invocation is a cold start in a new interpreter with its own hash seed" + ("; two-crash enumeration (first crash x crash points of the following invocations) on tiny programs."
                                      if self.level == "fault_enumeration" else "."))
        rc = harness.main_for(module, self.prop, self.level, self.rule + generic, ASSUME, self.minima)
        sys.exit(rc)
