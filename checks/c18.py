"""C18 - every invocation ends with exactly one well-formed, correctly classified outcome."""
import random

from checks.worldcheck import Spec
from dw.monitors import expected_checkpoint_raise

PROP = "C18"
ERRS = [
    {"kind": "client", "status": 500, "code": "ServiceException", "message": "boom"},
    {"kind": "client", "status": 503, "code": "ServiceUnavailable", "message": "later"},
    {"kind": "client", "status": 429, "code": "TooManyRequestsException", "message": "slow down"},
    {"kind": "client", "status": 400, "code": "InvalidParameterValueException", "message": "Invalid Checkpoint Token: stale"},
    {"kind": "client", "status": 400, "code": "InvalidParameterValueException", "message": "some other invalid parameter"},
    {"kind": "client", "status": 400, "code": "ValidationException", "message": "bad request"},
    {"kind": "client", "status": 403, "code": "AccessDeniedException", "message": "no"},
    {"kind": "client", "status": 404, "code": "ResourceNotFoundException", "message": "gone"},
    {"kind": "plain", "cls": "RuntimeError", "message": "socket closed"},
    {"kind": "plain", "cls": "TimeoutError", "message": "read timeout"},
]
USER_EXC = [("ValueError", "FAILED", "ValueError"), ("UserErr", "FAILED", "UserErr"), ("KeyError", "FAILED", "KeyError"),
            ("ExecutionError", "FAILED", "ExecutionError"), ("ValidationError", "FAILED", "ValidationError"),
            ("CallbackError", "FAILED", "CallbackError"), ("SerDesError", "FAILED", "SerDesError"),
            ("CallableRuntimeError", "FAILED", "CallableRuntimeError"), ("DurableExecutionsError", "FAILED", "DurableExecutionsError"),
            ("InvocationError", "raise", "InvocationError"), ("StepInterruptedError", "raise", "StepInterruptedError"),
            ("DataErr", "FAILED", "DataErr"), ("JsonDataErr", "FAILED", "JsonDataErr")]


def explicit(tier, seed):  # noqa: C901
    rng = random.Random(seed)
    i = 0

    def case(label, body, expect=None, **kw):
        nonlocal i
        i += 1
        prog = {"body": body}
        prog.update(kw.pop("prog_extra", {}))
        c = {"label": label, "prog": prog, "prog_seed": 13000 + i, "pattern": {"p": "plain"}, "expect": expect, "max_inv": 12, "max_raises": 2}
        c.update(kw)
        return c

    # user exceptions by location
    for cls, kind, etype in USER_EXC:
        raise_node = {"k": "raise", "cls": cls, "msg": "from-" + cls}
        exp_top = {"kind": kind, "etype": etype, "cls": cls, "why": "user-%s-top" % cls}
        yield case("exc-top", [{"k": "step", "val": 1}, raise_node], exp_top)
        # inside a child context the error is recorded and re-raised as CallableRuntimeError (InvocationErrors pass through)
        inner_kind = kind
        inner_etype = "CallableRuntimeError" if kind == "FAILED" else None
        yield case("exc-child", [{"k": "child", "body": [{"k": "step", "val": 1}, raise_node]}],
                   {"kind": inner_kind, "etype": inner_etype, "cls": cls, "why": "user-%s-child" % cls})
        # inside a step body with no retries
        stepn = {"k": "step", "script": [{"do": "fail", "cls": cls, "msg": "in-step"}], "retry": {"kind": "preset", "name": "none"}}
        if cls in ("ExecutionError", "CallbackError"):
            se = {"kind": "FAILED", "etype": cls, "why": "step-raises-%s" % cls}
        else:
            se = {"kind": "FAILED", "etype": "CallableRuntimeError", "why": "step-raises-%s" % cls}
        yield case("exc-step", [stepn], se)
        # inside a branch (parallel default = all successful): the batch result carries the failure; handler returns normally
        yield case("exc-branch", [{"k": "par", "branches": [{"body": [raise_node]}, {"body": [{"k": "step", "val": 2}]}], "cfg": {"preset": "all_completed"}}],
                   {"kind": "SUCCEEDED", "why": "user-%s-branch" % cls})
    # results
    yield case("result-plain", [{"k": "step", "val": 1}], {"kind": "SUCCEEDED", "why": "plain"})
    yield case("result-none", [{"k": "step", "val": 1}], {"kind": "SUCCEEDED", "why": "none"}, prog_extra={"ret": {"val": None}})
    yield case("result-nan", [{"k": "step", "val": 1}], {"kind": "SUCCEEDED", "why": "nan"}, prog_extra={"ret": {"val": [float("nan"), float("inf")]}})
    yield case("result-unserializable", [{"k": "step", "val": 1}], {"kind": "FAILED", "etype": "TypeError", "why": "unserializable-result"},
               prog_extra={"ret": {"unserializable": True}})
    for sz in (6 * 1024 * 1024 - 60, 6 * 1024 * 1024 - 52, 6 * 1024 * 1024 - 51, 6 * 1024 * 1024, 7 * 1024 * 1024):
        yield case("result-size-%d" % sz, [{"k": "step", "val": 1}], {"kind": "SUCCEEDED", "why": "size"}, prog_extra={"ret": {"big": sz - 2}})
    for sz in (6 * 1024 * 1024 - 200, 6 * 1024 * 1024 + 10):
        yield case("error-size-%d" % sz, [{"k": "raise", "cls": "ValueError", "msg": "e" * sz}], {"kind": "FAILED", "etype": "ValueError", "why": "big-error"})
    # few characters, many bytes: results / errors made of non-ASCII text, and text made of characters JSON has to escape
    for nch, ch in ((1_050_000, "\u6f22"), (2_200_000, "\u6f22"), (3_000_000, "\u00e9"), (3_200_000, "\u00e9"), (1_600_000, "\U0001F600"), (3_100_000, '"')):
        yield case("result-size-nonascii-%d" % nch, [{"k": "step", "val": 1}], {"kind": "SUCCEEDED", "why": "size-nonascii"}, prog_extra={"ret": {"big": nch, "ch": ch}})
    yield case("error-size-nonascii", [{"k": "raise", "cls": "ValueError", "msg": "\u6f22" * 2_300_000}], {"kind": "FAILED", "etype": "ValueError", "why": "big-error-nonascii"})
    # suspension
    yield case("pending-wait", [{"k": "wait", "s": 3}], {"kind": "SUCCEEDED", "why": "wait-then-done"})
    yield case("pending-callback-never", [{"k": "cb"}], {"kind": "PENDING", "why": "callback-outstanding"},
               world={"complete": {"0": {"when": "never"}}}, max_inv=2)
    # malformed events
    for j, ev in enumerate([{}, {"DurableExecutionArn": "a"}, "not-a-dict", None, 17, {"CheckpointToken": "t"},
                            {"DurableExecutionArn": "a", "CheckpointToken": "t", "InitialExecutionState": {"Operations": [{"Id": "s", "Type": "STEP", "Status": "STARTED"}]}},
                            {"DurableExecutionArn": "a", "CheckpointToken": "t", "InitialExecutionState": {"Operations": [{"Id": "s", "Type": "BOGUS", "Status": "STARTED"}]}},
                            {"DurableExecutionArn": "a", "CheckpointToken": "t", "InitialExecutionState": "zzz"}]):
        yield case("bad-event-%d" % j, [{"k": "step", "val": 1}], {"kind": "raise", "why": "malformed-event"}, bad_event=ev if ev is not None else [None])
    yield case("bad-input-json", [{"k": "step", "val": 1}], {"kind": "raise", "why": "input-not-json"}, input="{not json", bad_input=True)
    yield case("empty-input", [{"k": "step", "val": 1}], {"kind": "SUCCEEDED", "why": "empty-input"}, input="   ")
    # checkpoint error categories at every API call of a few shapes (incl. the large-result checkpoint)
    shapes = {
        "seq": [{"k": "step", "val": 1}, {"k": "step", "val": 2, "sem": "most"}, {"k": "wait", "s": 1}, {"k": "step", "val": 3}],
        "child": [{"k": "child", "body": [{"k": "step", "val": 1}, {"k": "step", "val": 2}]}, {"k": "step", "val": 3}],
        "big": [{"k": "step", "val": 1}],
        # user code raises inside (nested) child contexts: the last API calls are the contexts' FAIL records
        "child-raises": [{"k": "step", "val": 1}, {"k": "child", "body": [{"k": "step", "val": 2}, {"k": "raise", "cls": "ValueError", "msg": "in child"}]}],
        "nested-child-raises": [{"k": "child", "body": [{"k": "child", "body": [{"k": "step", "val": 2}, {"k": "raise", "cls": "UserErr", "msg": "deep"}]}]}],
        # a step result too large to share a batch with its own START: its SUCCEED waits in the overflow queue while the START's call fails
        "big-step": [{"k": "step", "script": [{"do": "ok", "big": 800 * 1024}]}, {"k": "step", "val": 2}],
        # concurrent producers: while the failing call is in flight other records queue up behind it
        "par": [{"k": "par", "branches": [{"body": [{"k": "step", "val": b}, {"k": "step", "val": b + 10}, {"k": "step", "val": b + 20}]} for b in range(3)],
                 "cfg": {"preset": "all_completed"}}, {"k": "step", "val": 9}],
    }
    for sname, body in shapes.items():
        extra = {"prog_extra": {"ret": {"big": 6 * 1024 * 1024 + 5}}} if sname == "big" else {}
        ncalls = {"seq": 5, "child": 4, "big": 2, "child-raises": 5, "nested-child-raises": 5, "par": 6, "big-step": 3}[sname]
        for k in range(1, ncalls + 1):
            for err in (ERRS if tier != "quick" else rng.sample(ERRS, 4)):
                for when in ("before", "after"):
                    if tier == "quick" and rng.random() < 0.4:
                        continue
                    exp = {"kind": "raise", "cls": "CheckpointError", "why": "checkpoint-4xx"} if expected_checkpoint_raise(err) else \
                          {"kind": "FAILED", "etype": "CheckpointError", "why": "checkpoint-%s" % (err.get("status") or err.get("cls"))}
                    yield case("ckpt-%s-%d" % (sname, k), body, exp,
                               faults=[{"match": {"op": "checkpoint", "n": k}, "err": err, "when": when, "delay_ms": 30 if (sname in ("par", "seq") and (k + len(when)) % 2) else 0}],
                               opts={"hang_s": 3.0, **({"perturb": {"p": 0.0, "seed": i, "files": ["threading.py", "state.py", "executor.py"],
                                                                   "after_sync": {"p": 0.8, "sleep": 0.003}}} if (k + len(sname)) % 3 == 0 else {})}, **extra)
    # the handler is done before the background checkpoint thread has executed its first statements (a workflow with nothing to
    # wait for, a slow thread start): the stop request must still reach that thread
    for nm, body, exp in (("empty", [], {"kind": "SUCCEEDED", "why": "no-operations"}),
                          ("raise-at-once", [{"k": "raise", "cls": "ValueError", "msg": "early"}], {"kind": "FAILED", "etype": "ValueError", "why": "user-ValueError-at-once"}),
                          ("one-step", [{"k": "step", "val": 1}], {"kind": "SUCCEEDED", "why": "one-step"})):
        for sl in (0.002, 0.02, 0.1):
            yield case("batcher-starts-late-%s" % nm, body, exp,
                       opts={"hang_s": 3.0, "perturb": {"p": 0.0, "seed": i, "files": ["state.py"], "slow_thread": {"re": r"^dex-handler_0$", "sleep": sl}}})
    # an HTTP-200 checkpoint answer the SDK cannot interpret (enum value of a newer service, missing member): a failed call like any other
    for sname, body in shapes.items():
        ncalls = {"seq": 5, "child": 4, "big": 2, "child-raises": 5, "nested-child-raises": 5, "par": 6, "big-step": 3}[sname]
        extra = {"prog_extra": {"ret": {"big": 6 * 1024 * 1024 + 5}}} if sname == "big" else {}
        for k in range(1, ncalls + 1):
            how = ["subtype", "status", "type", "no-id"][(k + len(sname)) % 4]
            if tier == "quick" and (k + len(sname)) % 2:
                continue
            yield case("ckpt-garbled-%s-%d" % (sname, k), body, {"kind": "FAILED", "etype": "CheckpointError", "why": "checkpoint-answer-garbled-" + how},
                       faults=[{"match": {"op": "checkpoint", "n": k}, "err": {"kind": "garble", "how": how}, "when": "after"}], opts={"hang_s": 3.0}, **extra)
    # a page fetch (GetDurableExecutionState) fails: while loading the paginated history, or while following the pages of a checkpoint response
    for sname, body in shapes.items():
        for err in (ERRS[0], ERRS[5], ERRS[8]):
            for nth in (1, 2, 3):
                exp = {"kind": "raise", "cls": "GetExecutionStateError", "why": "page-fetch-failed"}
                yield case("getstate-resp-%s" % sname, body, exp, pages={"resp_page": 1},
                           faults=[{"match": {"op": "get_state", "n_inv": None}, "err": err, "when": "before", "nth": nth}], opts={"hang_s": 3.0})
        yield case("getstate-initial-%s" % sname, [{"k": "step", "val": 0}, {"k": "wait", "s": 1}] + body, {"kind": "raise", "cls": "GetExecutionStateError", "why": "initial-page-fetch-failed"},
                   pages={"first_page": 1, "page_size": 1}, faults=[{"match": {"op": "get_state", "inv_ge": 2}, "err": ERRS[0], "when": "before"}], opts={"hang_s": 3.0})
    # BaseException raised by user code inside a branch
    for cls in ("SystemExit", "KeyboardInterrupt"):
        yield case("base-exc-branch", [{"k": "par", "branches": [{"body": [{"k": "raise", "cls": cls, "msg": "bye"}]}, {"body": [{"k": "step", "val": 1}]}]}],
                   None, opts={"hang_s": 3.0})


def _inject(spec):
    orig = spec.run_case

    def run_case(case):
        if "exact_scenario" not in case and "prog" in case:
            pass
        return orig(case)

    return run_case


SPEC = Spec(
    PROP,
    level="exploration",
    explicit=explicit,
    quick={"plain": 30, "enum": 0, "rand": 10, "async": 0},
    thorough={"plain": 300, "enum": 30, "rand": 100, "async": 50, "perturb": 40},
    rule="handler behaviours x location (top level, child context, step body, parallel branch) x exception classes (user classes, "
    "ExecutionError, ValidationError, CallbackError, SerDesError, CallableRuntimeError, InvocationError, StepInterruptedError, BaseExceptions "
    "in a branch) x result kinds (JSON, None, NaN, non-serializable, sizes around the 6 MB response limit in ASCII, CJK, accented, emoji and quote-heavy text, oversized errors) x malformed "
    "events and input payloads x checkpoint error category (5xx, 429, 4xx, Invalid Checkpoint Token, non-botocore) at every API call "
    "position of seven program shapes (the failing request answered at once or kept in flight 30 ms while other records queue up behind it; a third of them under after-sync perturbation) (incl. child contexts whose body raises, so that the failing call is a context's FAIL record), request-lost and response-lost, incl. the large-result checkpoint; plus random programs. Oracle: "
    "outcome shape (Status + Result-JSON | Error object | neither, or an EXECUTION record when the payload is empty), the outcome as encoded by the runtime fits the Lambda response limit, raise only for "
    "InvocationError-family / retriable checkpoint errors / malformed payloads, expected classification per scenario, no dex-handler "
    "thread alive afterwards, and the invocation ends (logical hang rule). A class = (scenario label, outcome kind).",
    deciding=lambda r: (r.get("stats") or {}).get("c18_outcomes", 0) > 0,
    minima={"c18_outcomes": 300},
)
cases = SPEC.cases
run_case = SPEC.run_case
if __name__ == "__main__":
    SPEC.main("checks.c18")
