"""Length-prefixed pickle frames over os pipes."""
from __future__ import annotations

import os
import pickle
import struct

HDR = struct.Struct("<I")


def write_frame(fd: int, obj) -> None:
    data = pickle.dumps(obj, protocol=pickle.HIGHEST_PROTOCOL)
    buf = HDR.pack(len(data)) + data
    mv = memoryview(buf)
    while mv:
        n = os.write(fd, mv)
        mv = mv[n:]


class FrameReader:
    """Incremental frame parser for a (possibly non-blocking) fd."""

    def __init__(self, fd: int):
        self.fd = fd
        self.buf = bytearray()
        self.eof = False

    def feed(self) -> bool:
        """Read what is available; returns False on EOF."""
        try:
            chunk = os.read(self.fd, 1 << 20)
        except BlockingIOError:
            return True
        except OSError:
            self.eof = True
            return False
        if not chunk:
            self.eof = True
            return False
        self.buf += chunk
        return True

    def frames(self):
        while True:
            if len(self.buf) < HDR.size:
                return
            (n,) = HDR.unpack_from(self.buf, 0)
            if len(self.buf) < HDR.size + n:
                return
            data = bytes(self.buf[HDR.size : HDR.size + n])
            del self.buf[: HDR.size + n]
            yield pickle.loads(data)  # noqa: S301


def read_frame_blocking(fd: int):
    hdr = _read_exact(fd, HDR.size)
    if hdr is None:
        return None
    (n,) = HDR.unpack(hdr)
    data = _read_exact(fd, n)
    if data is None:
        return None
    return pickle.loads(data)  # noqa: S301


def _read_exact(fd: int, n: int):
    out = bytearray()
    while len(out) < n:
        chunk = os.read(fd, n - len(out))
        if not chunk:
            return None
        out += chunk
    return bytes(out)
