"""World slice with in-situ icontract postconditions switched on (shared by C05, C15, C20)."""
import copy
import random

from checks import world as W
from dw.driver import run_scenario
from dw.monitors import run_monitors


def insitu_cases(tier, seed, n_quick=24, n_thorough=400):
    n = n_quick if tier == "quick" else n_thorough
    for i in range(n):
        yield {"label": "insitu-world", "kind": "insitu", "prog_seed": seed * 50021 + i}


def run_insitu(case, prop):
    sc = W.base_scenario({"prog_seed": case["prog_seed"], "gen": {"max_ops": 9}})
    sc.setdefault("opts", {})["contracts"] = True
    if case["prog_seed"] % 3 == 0:
        sc["pages"] = {"resp_page": 2}
    r = run_scenario(copy.deepcopy(sc))
    vs = run_monitors(r, [prop])
    for v in vs:
        v["case"] = dict(case, exact_scenario=W.strip_scenario(sc))
    st = r.get("stats") or {}
    obs = {k: v for k, v in st.items() if k.startswith("insitu_")}
    obs["insitu_world_executions"] = 1
    ev = sum(v for k, v in obs.items() if k.startswith("insitu_contract"))
    return {"execs": 1, "invs": len(r["invocations"]), "classes": {"insitu|" + W.shape_of(sc["prog"])[:40]} if ev else set(),
            "violations": [v for v in vs if v["prop"] == prop], "obs": obs,
            "sample": {"label": "insitu-world", "shape": W.shape_of(sc["prog"]), "contract_evaluations": {k: v for k, v in obs.items()}}}
