"""C08 world check (see DESIGN.md section 2, C08)."""
from checks.worldcheck import Spec, replayed_delivery

PROP = "C08"
SPEC = Spec(
    PROP,
    level="exploration",
    rule="random programs (all nine operation kinds, nesting<=3) x {uninterrupted with random pagination/latency, every single "
    "crash point of a small-program corpus, random multi-crash, asynchronous SIGKILL, yield injection}; bijection structural-path <-> Id over every update of every invocation; ParentId equals the id of the enclosing context; across all executions of all programs in the worker, ids are a function of the position chain only (metamorphic, no re-implementation of the hash). Non-trivial = positions recorded. "
    "A class = (program shape hash, interruption pattern, event kind at which the crash landed).",
    deciding=lambda r: True,
)
cases = SPEC.cases
run_case = SPEC.run_case
if __name__ == "__main__":
    SPEC.main("checks.c08")
