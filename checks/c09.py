"""C09 - map/parallel honour the completion policy and report branches faithfully."""
import itertools
import random

from checks.worldcheck import Spec

PROP = "C09"
CFGS = [
    ("default", {}),
    ("all_completed", {"preset": "all_completed"}),
    ("all_successful", {"preset": "all_successful"}),
    ("first_successful", {"preset": "first_successful"}),
    ("min2", {"min_ok": 2}),
    ("min2-tol1", {"min_ok": 2, "tol_n": 1}),
    ("tol0", {"tol_n": 0}),
    ("tol1", {"tol_n": 1}),
    ("tol2", {"tol_n": 2}),
    ("pct50", {"tol_pct": 50}),
    ("pct0", {"tol_pct": 0}),
    ("min1-pct34", {"min_ok": 1, "tol_pct": 34}),
    ("min3-tol5", {"min_ok": 3, "tol_n": 5}),
    # tolerances that fall between the truncated and the true failure share for 3, 6 and 9 items (1/3 = 33.3 %, 2/3 = 66.7 %)
    ("pct33", {"tol_pct": 33}),
    ("pct66", {"tol_pct": 66}),
    ("pct33.3", {"tol_pct": 33.3}),
    ("pct12", {"tol_pct": 12}),
    # both tolerances configured, either one binding
    ("tol3-pct20", {"tol_n": 3, "tol_pct": 20}),
    ("tol0-pct60", {"tol_n": 0, "tol_pct": 60}),
    ("tol1-pct34-min2", {"tol_n": 1, "tol_pct": 34, "min_ok": 2}),
]


def build(kind, path, behaviours, cfg, order, maxc):
    """behaviours: list of 'ok' | 'fail' | 'wait' | 'cb' | 'block'."""
    n = len(behaviours)
    brs = []
    for b, beh in enumerate(behaviours):
        g = "g:%s:%d" % (path, b)
        if beh == "ok":
            # results incl. values that are falsy but not None (they must come back as they are when the block is replayed)
            body = [{"k": "step", "script": [{"do": "ok", "val": ["v%d" % b, 0, "", [], {}, False, 0.0][b % 7], "gate": g}]}]
            if b % 7 in (1, 2, 5):
                brs.append({"body": body, "result": {"raw_last": True}})
                continue
        elif beh == "fail" and b % 3 == 2:
            # the branch function itself raises, incl. the SDK's own invocation-level error classes: still one failed item of the batch
            body = [{"k": "gate", "name": g}, {"k": "raise", "cls": ["InvocationError", "StepInterruptedError", "UserErr"][(b // 3 + n) % 3], "msg": "f%d" % b}]
        elif beh == "fail":
            body = [{"k": "step", "script": [{"do": "fail", "cls": "ValueError", "msg": "f%d" % b, "gate": g}], "retry": {"kind": "preset", "name": "none"}}]
        elif beh == "wait":
            body = [{"k": "wait", "s": 2}, {"k": "step", "val": "w%d" % b}]
        elif beh == "cb":
            body = [{"k": "cb"}]
        else:
            body = [{"k": "step", "script": [{"do": "ok", "val": "b%d" % b, "gate": "blk:%s:%d" % (path, b)}]}]
        brs.append({"body": body})
    c = dict(cfg)
    if maxc:
        c["max_conc"] = maxc
    if kind == "par":
        node = {"k": "par", "branches": brs, "cfg": c or None}
        if c == {}:
            node["cfg"] = None
    else:
        node = {"k": "map", "items": list(range(n)), "per_item": brs, "body": [], "cfg": c or None}
        if cfg == {} and not maxc:
            node["cfg"] = None
    holds = []
    fin = [b for b in order if behaviours[b] in ("ok", "fail")]
    for k in range(1, len(fin)):
        holds.append({"match": {"kind": "gate", "name": "g:%s:%d" % (path, fin[k])},
                      "until": {"event": {"kind": "fn_exit", "fnkind": "branch", "path": "%s/b%d" % (path, fin[k - 1]), "this_inv": False}}})
    for b, beh in enumerate(behaviours):
        if beh == "block":
            holds.append({"match": {"kind": "gate", "name": "blk:%s:%d" % (path, b)},
                          "until": {"any": [{"event": {"kind": "ret", "path": path}}, {"event": {"kind": "susp", "path": path}},
                                            {"event": {"kind": "exc", "path": path}}, {"event": {"kind": "abort", "path": path}}]}})
    return node, holds


def explicit(tier, seed):
    rng = random.Random(seed)
    n_cases = 260 if tier == "quick" else 4000
    i = 0
    # zero items
    for kind in ("par", "map"):
        for maxc in (None, 2):
            node, holds = build(kind, "0", [], {}, [], maxc)
            yield {"label": "zero-items", "prog": {"body": [node, {"k": "step", "val": "end"}]}, "prog_seed": 17000 + i, "pattern": {"p": "plain"},
                   "holds": holds, "opts": {"hang_s": 2.5}, "max_inv": 6}
            i += 1
    while i < n_cases:
        kind = rng.choice(["par", "map"])
        n = rng.choice([1, 2, 3, 3, 4, 4, 5, 6, 8])
        cname, cfg = rng.choice(CFGS)
        if cname.startswith("pct3") or cname == "pct66":
            n = rng.choice([3, 3, 6, 6, 9, 7])
        behaviours = [rng.choice(["ok", "ok", "ok", "fail", "fail", "wait", "cb", "block"]) for _ in range(n)]
        maxc = rng.choice([None, None, 1, 2, n])
        order = list(range(n))
        if not maxc or maxc >= n:
            rng.shuffle(order)
        node, holds = build(kind, "0", behaviours, cfg, order, maxc)
        body = [node, {"k": "wait", "s": 1}, {"k": "step", "val": "end"}]
        opts = {"hang_s": 3.0, "idle_s": 0.6}
        if i % 5 == 0:
            opts["perturb"] = {"p": 0.03, "seed": i}
        if i % 7 == 0:
            opts["targeted"] = [{"kind": "ews_setattr", "delay": 0.003}]
        yield {"label": "%s|%s" % (kind, cname), "prog": {"body": body}, "prog_seed": 17000 + i, "pattern": {"p": "plain"}, "holds": holds,
               "opts": opts, "max_inv": 30, "c09": {"n": n, "beh": "".join(b[0] for b in behaviours), "maxc": maxc}}
        i += 1


def window_cases(tier, seed):
    """The deciding completion arrives while the timer thread is re-submitting a suspended branch (its blocking refresh call is
    kept in flight); and oversized batches that were decided early while branches were still queued behind max_concurrency."""
    rng = random.Random(seed + 3)
    i = 0
    ret_any = {"any": [{"event": {"kind": "ret", "path": "0"}}, {"event": {"kind": "susp", "path": "0"}}, {"event": {"kind": "exc", "path": "0"}},
                       {"event": {"kind": "abort", "path": "0"}}]}
    refresh = {"kind": "api", "updates": [], "op": "checkpoint"}
    for kind in ("par", "map"):
        for cname, cfg, decider in (("min1", {"min_ok": 1}, "ok"), ("first_successful", {"preset": "first_successful"}, "ok"), ("tol0", {"tol_n": 0}, "fail"),
                                    ("min1-tol1", {"min_ok": 1, "tol_n": 1}, "ok")):
            for parker in ("wait", "retry"):
                for rep in range(1 if tier == "quick" else 4):
                    if parker == "wait":
                        b0 = [{"k": "wait", "s": 1}]
                    else:
                        b0 = [{"k": "step", "script": [{"do": "fail", "cls": "ValueError", "msg": "x"}, {"do": "ok", "val": 1, "gate": "blk:0:0"}],
                               "retry": {"decisions": [("retry", 1), ("stop",)]}}]
                    b0 = b0 + [{"k": "step", "script": [{"do": "ok", "val": "late", "gate": "blk:0:0"}]}]
                    # the decider's last record (its branch completion) is queued just before the timer thread's refresh call, so both
                    # travel in one API call and both waiters are released together; the batcher thread is descheduled right after
                    # releasing the first one (after-sync), which lets the decider's done-callback run while the resubmitter is still
                    # inside its blocking call
                    dstep = {"k": "step", "val": "d"} if decider == "ok" else \
                        {"k": "try", "catch": "*", "body": {"k": "step", "script": [{"do": "fail", "cls": "ValueError", "msg": "d"}], "retry": {"kind": "preset", "name": "none"}}}
                    dtail = [{"k": "gate", "name": "dec"}] if decider == "ok" else [{"k": "gate", "name": "dec"}, {"k": "raise", "cls": "ValueError", "msg": "decider failed"}]
                    brs = [{"body": b0}, {"body": [dstep] + dtail}, {"body": [{"k": "step", "script": [{"do": "ok", "val": "b2", "gate": "blk:0:2"}]}]}]
                    node = {"k": "par", "branches": brs, "cfg": cfg} if kind == "par" else {"k": "map", "items": [0, 1, 2], "per_item": brs, "body": [], "cfg": cfg}
                    for sweep in ((3, 9, 15) if tier == "quick" else range(0, 20, 2)):
                        holds = [{"match": {"kind": "gate", "name": "dec"}, "until": {"event": {"kind": "susp", "path": "0/b0/0"}}, "delay_ms": sweep},
                                 {"match": {"kind": "gate", "name": "blk:0:0"}, "until": ret_any},
                                 {"match": {"kind": "gate", "name": "blk:0:2"}, "until": ret_any}]
                        yield {"label": "decided-during-resubmission|%s|%s|%s" % (kind, cname, parker),
                               "prog": {"body": [{"k": "try", "body": node, "catch": "*"}, {"k": "step", "val": "end"}]},
                               "prog_seed": 17900 + i, "pattern": {"p": "plain"}, "holds": holds, "max_inv": 12,
                               "opts": {"hang_s": 3.0, "idle_s": 0.7, "perturb": {"p": 0.0, "seed": seed * 53 + i, "files": ["state.py", "threading.py"],
                                                                                   "after_sync": {"p": 0.9, "sleep": 0.004}}}}
                        i += 1
    L = 256 * 1024
    for kind in ("par", "map"):
        for n, maxc, cfg in ((6, 2, {"min_ok": 2}), (5, 1, {"min_ok": 1}), (4, 2, {"preset": "first_successful"}), (5, 2, {"tol_n": 0}), (6, 3, {"min_ok": 2, "tol_n": 1})):
            brs = []
            for b in range(n):
                if cfg.get("tol_n") == 0 and b == 0:
                    brs.append({"body": [{"k": "step", "script": [{"do": "fail", "cls": "ValueError", "msg": "m" * (L + 100)}], "retry": {"kind": "preset", "name": "none"}}]})
                else:
                    brs.append({"body": [{"k": "step", "val": b}], "result": {"big": L // 2 + 500}})
            c = dict(cfg, max_conc=maxc)
            node = {"k": "par", "branches": brs, "cfg": c} if kind == "par" else {"k": "map", "items": list(range(n)), "per_item": brs, "body": [], "cfg": c}
            yield {"label": "oversized-decided-early-with-queued-branches|%s" % kind,
                   "prog": {"body": [{"k": "try", "body": node, "catch": "*"}, {"k": "wait", "s": 1}, {"k": "step", "val": "mid"}, {"k": "wait", "s": 1}, {"k": "step", "val": "end"}]},
                   "prog_seed": 17950 + i, "pattern": {"p": "plain"}, "opts": {"hang_s": 3.0}, "max_inv": 12}
            i += 1


def explicit_all(tier, seed):
    yield from explicit(tier, seed)
    yield from window_cases(tier, seed)
    # a branch resumed by the in-process timer that finishes (parks again) before its done-callback is attached - the callback then runs
    # inline on the timer thread: the call must still return (scenarios shared with C07: late service timers under after-sync perturbation)
    from checks.c07 import late_timer_cases

    for c in late_timer_cases(tier, seed):
        yield dict(c, label="c09-" + c["label"])


def deciding(r):
    return (r.get("stats") or {}).get("c09_batches", 0) > 0


SPEC = Spec(
    PROP,
    props=["C09"],
    level="exploration",
    explicit=explicit_all,
    quick={"plain": 0, "enum": 0, "rand": 0, "async": 0},
    thorough={"plain": 0, "enum": 0, "rand": 0, "async": 0},
    rule="map/parallel with 0-8 items x 20 completion configurations (incl. percentages that separate truncated from exact failure shares) (defaults, presets, min_successful, tolerated count / percentage and "
    "combinations) x max_concurrency in {None,1,2,n} x per-branch behaviour in {succeed, fail, timed suspend, suspend on callback, block "
    "inside the step function} x a completion order forced by conductor gates inside the step functions (gate k is released only after "
    "the previous branch body has exited; blocked branches are released only once the call has returned), followed by a wait so the "
    "result is replayed; LINE-level yield injection on 1/5 and a pause between the field writes of the executor's branch state on 1/7 of "
    "the scenarios; plus scenarios in which the deciding completion arrives while the timer thread re-submits a suspended branch (the decider's completion record and the timer thread's refresh travel in one API call, release instant swept over the batching window, after-sync perturbation), and oversized (>256 KB) batches decided early while branches were still queued behind max_concurrency, replayed twice. Oracle: at the instant the call returns the reference policy is decided by the branch completion records applied so "
    "far (timing is not judged for min_successful-only configs after a failure, where code and docs disagree); the call returns without "
    "the conductor having to force-release a blocked branch; peak concurrently active branch bodies <= max_concurrency; one item per "
    "input in order; items reported SUCCEEDED/FAILED have an applied completion record and carry the branch's ground-truth value/error; "
    "reason/status consistency rules; replayed BatchResult identical. A class = (kind, config, branch behaviours, concurrency limit, how "
    "the execution ended).",
    deciding=deciding,
    minima={"c09_batches": 200},
)


def cases(tier, seed):
    for c in SPEC.cases(tier, seed):
        yield c


_orig = SPEC.judge_one


def run_case(case):
    out = SPEC.run_case(case)
    if "c09" in case:
        c = case["c09"]
        out["classes"] = {"%s|n%d|%s|c%s|%s" % (case["label"], c["n"], "".join(sorted(c["beh"])), c["maxc"], k.rsplit("|", 1)[-1]) for k in out["classes"]}
    return out


if __name__ == "__main__":
    import sys

    from checks.worldcheck import ASSUME
    from dw import harness

    sys.exit(harness.main_for("checks.c09", PROP, SPEC.level, SPEC.rule, ASSUME, SPEC.minima))
