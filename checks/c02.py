"""C02 - replay transparency: per-position deliveries identical across invocations; final outcome independent of interruptions."""
import copy

from checks.worldcheck import Spec, replayed_delivery

PROP = "C02"
L = 256 * 1024


def explicit(tier, seed):
    """Results around the checkpoint size limit (summarised contexts are rebuilt on replay) feeding later control flow."""
    i = 0
    tail = [{"k": "wait", "s": 1}, {"k": "step", "val": "after"}]
    for n in (L - 3, L + 10, 2 * L):
        for cfg in (None, {"summary": '{"s":1}'}):
            yield {"label": "big-child", "prog": {"body": [{"k": "child", "body": [{"k": "step", "val": 1}, {"k": "step", "val": 2}], "result": {"big": n}, "cfg": cfg}] + tail},
                   "prog_seed": 25000 + i, "pattern": {"p": "crash_enum", "max_points": 8} if tier != "quick" or i % 3 == 0 else {"p": "plain"}}
            i += 1
        for kind in ("par", "map"):
            for cfg in (None, {"preset": "all_completed"}):
                brs = [{"body": [{"k": "step", "val": 1}], "result": {"big": n}}, {"body": [{"k": "step", "val": 2}]}]
                node = {"k": "par", "branches": brs, "cfg": cfg} if kind == "par" else {"k": "map", "items": [1, 2], "per_item": brs, "body": [], "cfg": cfg}
                yield {"label": "big-branch-" + kind, "prog": {"body": [node] + tail}, "prog_seed": 25000 + i, "pattern": {"p": "plain"}}
                i += 1
    for kind in ("par", "map"):
        brs = [{"body": [{"k": "step", "val": j}], "result": {"big": L // 2}} for j in range(3)]
        node = {"k": "par", "branches": brs, "cfg": {"preset": "all_completed"}} if kind == "par" else \
            {"k": "map", "items": [0, 1, 2], "per_item": brs, "body": [], "cfg": None}
        yield {"label": "big-batch-" + kind, "prog": {"body": [node, {"k": "if", "ref": 0, "eq": "never", "then": [], "else": [{"k": "step", "val": "else-branch"}]}] + tail},
               "prog_seed": 25000 + i, "pattern": {"p": "crash_enum", "max_points": 8}}
        i += 1


def explicit2(tier, seed):
    yield from explicit(tier, seed)
    # several operations with EQUAL container payloads, each updated in place by the workflow after delivery: every later delivery
    # (of the same or of another operation) must still be what was recorded
    import random

    rng = random.Random(seed + 41)
    for j in range(10 if tier == "quick" else 100):
        val = rng.choice([[], {}, [1, 2], {"items": ["book"], "total": 1}, [[]], {"a": {}}])
        units = []
        for u in range(rng.randrange(2, 5)):
            kind = rng.choice(["step", "step", "child", "wfc"])
            if kind == "step":
                units.append({"k": "step", "val": val, "mutate": True, "serdes": rng.choice([None, None, "json"])})
            elif kind == "child":
                units.append({"k": "child", "body": [{"k": "step", "val": val, "mutate": True}, {"k": "step", "val": val, "mutate": True}]})
            else:
                units.append({"k": "wfc", "init": val, "checks": [{"do": "ok", "fn": "mutate" if isinstance(val, (list,)) or isinstance(val, dict) else "inc"}],
                              "decisions": [("cont", 1), ("stop",)]})
            if rng.random() < 0.5:
                units.append({"k": "wait", "s": 1})
        body = units + [{"k": "wait", "s": 1}, {"k": "step", "val": val, "mutate": True}, {"k": "wait", "s": 1}, {"k": "step", "val": "end"}]
        if j % 3 == 0:
            body = [{"k": "par", "branches": [{"body": body}, {"body": [{"k": "step", "val": val, "mutate": True}, {"k": "wait", "s": 2}, {"k": "step", "val": val}]}],
                     "cfg": {"preset": "all_completed"}}]
        yield {"label": "equal-payloads-mutated-in-place", "prog": {"body": body}, "prog_seed": 25500 + j,
               "pattern": {"p": "crash_enum", "max_points": 8} if j % 3 == 1 else {"p": "plain"}}


def nested_cases(tier, seed):
    """(a) a branch returns the BatchResult of an inner map/parallel as its own result (nested batch results); (b) branches that
    raise directly (not through a failing step) under tolerant completion configs: what the workflow sees of the failure must
    not depend on whether the block was built live or re-read after an interruption."""
    i = 0
    for outer in ("par", "map"):
        for inner in ("par", "map"):
            inn = {"k": "map", "items": [1, 2], "body": [{"k": "step", "val": 10}], "cfg": None} if inner == "map" else \
                {"k": "par", "branches": [{"body": [{"k": "step", "val": 1}]}, {"body": [{"k": "step", "val": 2}]}], "cfg": None}
            brs = [{"body": [{"k": "step", "val": "pre"}, copy.deepcopy(inn)], "result": {"raw_last": True}} for _ in range(2)]
            node = {"k": "par", "branches": brs, "cfg": {"preset": "all_completed"}} if outer == "par" else \
                {"k": "map", "items": [0, 1], "per_item": brs, "body": [], "cfg": None}
            body = [node, {"k": "wait", "s": 1}, {"k": "step", "val": "after"}, {"k": "wait", "s": 1}, {"k": "step", "val": "end"}]
            for pat in ({"p": "plain"}, {"p": "crash_enum", "max_points": 10}):
                yield {"label": "nested-batch-result", "prog": {"body": body}, "prog_seed": 25700 + i, "pattern": pat}
                i += 1
    for kind in ("par", "map"):
        # tolerances that are never exceeded here, so every branch runs to its end and the block's result does not depend on the schedule
        # (the all_completed preset configures nothing and is therefore decided by the first failure)
        for cfg in ({"tol_n": 5}, {"tol_n": 2}, {"tol_pct": 80}):
            brs = [{"body": [{"k": "step", "val": 0}, {"k": "raise", "cls": "ValueError", "msg": "direct %d" % b}]} if b % 2 == 0 else {"body": [{"k": "step", "val": b}]} for b in range(3)]
            node = {"k": "par", "branches": brs, "cfg": cfg} if kind == "par" else {"k": "map", "items": [0, 1, 2], "per_item": brs, "body": [], "cfg": cfg}
            body = [{"k": "try", "body": node, "catch": "*"}, {"k": "step", "val": "after"}, {"k": "wait", "s": 1}, {"k": "step", "val": "end"}]
            yield {"label": "branch-raises-directly", "prog": {"body": body}, "prog_seed": 25750 + i, "pattern": {"p": "crash_enum", "max_points": 24}}
            i += 1


def concurrent_big_value_cases(tier, seed):
    """Several branches finish steps with large nested (non-plain-JSON) results at the same moment, so the shared default
    serializer is inside serialize() on several threads at once; the block then suspends and the recorded values are read back."""
    for j in range(8 if tier == "quick" else 40):
        nb = [4, 6, 8][j % 3]
        rows = [300, 600][j % 2]
        brs = [{"body": [{"k": "step", "script": [{"do": "ok", "val": [{"id": r, "pair": (r, str(b)), "tags": ["x", b]} for r in range(rows)], "gate": "go"}]},
                         {"k": "wait", "s": 1}, {"k": "step", "val": b}]} for b in range(nb)]
        node = {"k": "par", "branches": brs, "cfg": {"tol_n": 99}}
        # every step function is held until all of them have been entered, so that they return - and their results are serialized - together
        yield {"label": "concurrent-large-results", "prog": {"body": [node, {"k": "step", "val": "end"}]}, "prog_seed": 25900 + j, "pattern": {"p": "plain"},
               "holds": [{"match": {"kind": "gate", "name": "go"}, "until": {"event": {"kind": "gate", "name": "go", "count": nb}}}],
               "opts": {"perturb": {"p": 0.02, "seed": seed * 7 + j, "files": ["serdes.py"], "sleep_p": 0.3, "max_sleep": 0.001}} if j % 2 else {}}


def explicit3(tier, seed):
    yield from explicit2(tier, seed)
    yield from nested_cases(tier, seed)
    yield from concurrent_big_value_cases(tier, seed)
    # batches recorded as a summary (over 256 kB) that were decided early with branches still queued or running, then replayed: the
    # rebuilt BatchResult (items, statuses AND completion reason) is what the first delivery was
    from checks.c09 import window_cases

    for c in window_cases(tier, seed):
        if c["label"].startswith("oversized-decided-early"):
            yield dict(c, label="c02-" + c["label"])


SPEC = Spec(
    PROP,
    level="fault_enumeration",
    det=True,
    compare_final=True,
    gen={"kinds": ["step", "step", "wait", "cb", "wfcb", "invoke", "wfc", "child", "par", "map", "fstep", "fstep", "rstep", "fwfc"]},
    rule="deterministic random programs (values from the default serializer's exact domain, try/except by class around failing "
    "steps/conditions, nested child contexts, map/parallel, several operations with equal container payloads that the workflow updates in place after delivery) x {uninterrupted with random pagination, every single crash point of a "
    "small-program corpus, random multi-crash, asynchronous SIGKILL}; oracle 1: every ret/exc delivered for one program position is "
    "identical (type-tagged canonical value / exception class+message) in every invocation; oracle 2: the final (status, result | "
    "error type+message) of each interrupted run equals that of the uninterrupted reference run of the same program on the real SDK "
    "(runs that interrupted an at-most-once step are excluded from oracle 2 only). Non-trivial = a completed operation was delivered "
    "again in a later invocation. A class = (program shape hash, interruption pattern, crash landing event kind).",
    deciding=replayed_delivery,
    explicit=explicit3,
    minima={"c02_deliveries": 500},
)
cases = SPEC.cases
run_case = SPEC.run_case
if __name__ == "__main__":
    SPEC.main("checks.c02")
