"""Deterministic, permissive, wire-format simulator of the durable-execution backend.

Semantics are the ones the SDK's own factories, status predicates and tests encode (DESIGN §1.1).
The simulator never rejects: it applies whatever arrives and *records* protocol oddities.
"""
from __future__ import annotations

import copy
import datetime as _dt
import time as _time

UTC = _dt.timezone.utc
TERMINAL = {"SUCCEEDED", "FAILED", "CANCELLED", "TIMED_OUT", "STOPPED"}


class VClock:
    """Virtual clock: v = v0 + (monotonic - m0) * k + jumps. CLOCK_MONOTONIC is shared across fork."""

    def __init__(self, k: float = 50.0, v0: float = 1_750_000_000.0):
        self.k = float(k)
        self.m0 = _time.monotonic()
        self.v0 = v0
        self.jump = 0.0

    def now(self) -> float:
        return self.v0 + (_time.monotonic() - self.m0) * self.k + self.jump

    def advance_to(self, t: float) -> None:
        n = self.now()
        if t > n:
            self.jump += t - n

    def dt(self, t: float | None = None) -> _dt.datetime:
        return _dt.datetime.fromtimestamp(self.now() if t is None else t, tz=UTC)


def _ms(dt):
    return int(dt.timestamp() * 1000)


def wire_view(op: dict) -> dict:
    """What the service reports for an operation (simulator-private fields removed; lean mode omits an all-default StepDetails)."""
    o = copy.deepcopy(op)
    lean = o.pop("_lean", False)
    sd = o.get("StepDetails")
    if lean and sd is not None and set(sd) <= {"Attempt"} and not sd.get("Attempt"):
        o.pop("StepDetails")
    return o


def op_to_json(op: dict) -> dict:
    """wire Operation (datetimes) -> JSON event form (ms timestamps)."""
    o = wire_view(op)
    for k in ("StartTimestamp", "EndTimestamp"):
        if isinstance(o.get(k), _dt.datetime):
            o[k] = _ms(o[k])
    sd = o.get("StepDetails")
    if sd and isinstance(sd.get("NextAttemptTimestamp"), _dt.datetime):
        sd["NextAttemptTimestamp"] = _ms(sd["NextAttemptTimestamp"])
    wd = o.get("WaitDetails")
    if wd and isinstance(wd.get("ScheduledEndTimestamp"), _dt.datetime):
        wd["ScheduledEndTimestamp"] = _ms(wd["ScheduledEndTimestamp"])
    return o


class Backend:
    def __init__(self, clock: VClock, input_payload: str | None = "{}", arn: str = "arn:verif:exec/0"):
        self.clock = clock
        self.arn = arn
        self.ops: dict[str, dict] = {}
        self.order: list[str] = []
        self.seq = 0
        self.applied: list[dict] = []  # every applied update, global order
        self.oddities: list[dict] = []
        self.dirty: list[str] = []
        self.token_n = 0
        self.token = "tok-0"
        self.cb_n = 0
        self.exec_result: dict | None = None
        self.inv = 0
        self.api_calls = 0
        self._pending_pages: dict[str, list[dict]] = {}
        self.on_apply = None  # hook(update, op) called after each applied update (world reactions)
        self.prune_completed = False
        self.lean_step_details = False  # world option "lean_step_details": a step that has not retried yet is reported WITHOUT StepDetails
        self.skew = 0.0  # world option "clock_skew": the service's clock is this many (virtual) seconds ahead of the function host's
        self.empty_page_every = 0  # pages option "empty_every": every k-th page fetch answers with no operations but a marker
        self.timer_lag = 0.0  # virtual seconds by which the service is late in acting on a due timer (world option "timer_lag")
        ex = {
            "Id": "exec-op-0",
            "Type": "EXECUTION",
            "Status": "STARTED",
            "StartTimestamp": clock.dt(),
            "ExecutionDetails": {"InputPayload": input_payload},
        }
        if input_payload is None:
            ex["ExecutionDetails"] = {}
        self.ops[ex["Id"]] = ex
        self.order.append(ex["Id"])

    # ------------------------------------------------------------------ helpers
    def _new_token(self) -> str:
        self.token_n += 1
        self.token = "tok-%d" % self.token_n
        return self.token

    def _touch(self, oid: str) -> None:
        if oid not in self.dirty:
            self.dirty.append(oid)

    def by_name(self, name: str):
        for oid in self.order:
            if self.ops[oid].get("Name") == name:
                return self.ops[oid]
        return None

    def status_of(self, oid: str):
        op = self.ops.get(oid)
        return op["Status"] if op else None

    def snapshot(self) -> dict:
        return copy.deepcopy(self.ops)

    # ------------------------------------------------------------------ timers
    def _pruned(self, oid: str) -> bool:
        """World option "prune_completed": the history handed to an invocation leaves out the descendants of contexts that have
        completed (their result is on the context's own record), except under ReplayChildren."""
        if not self.prune_completed:
            return False
        p = self.ops[oid].get("ParentId")
        seen = 0
        while p and p in self.ops and seen < 100:
            par = self.ops[p]
            if par.get("Type") == "CONTEXT" and par.get("Status") in TERMINAL and not (par.get("ContextDetails") or {}).get("ReplayChildren"):
                return True
            p = par.get("ParentId")
            seen += 1
        return False

    def svc_now(self) -> float:
        return self.clock.now() + self.skew

    def svc_dt(self):
        return self.clock.dt(self.svc_now())

    def due_timers(self, now: float | None = None) -> list[tuple[float, str]]:
        now = self.svc_now() if now is None else now
        out = []
        for oid in self.order:
            t = self.timer_of(oid)
            if t is not None and t + self.timer_lag <= now:
                out.append((t, oid))
        return sorted(out)

    def timer_of(self, oid: str):
        op = self.ops[oid]
        if op["Type"] == "WAIT" and op["Status"] == "STARTED":
            ts = op.get("WaitDetails", {}).get("ScheduledEndTimestamp")
            return ts.timestamp() if ts else None
        if op["Type"] == "STEP" and op["Status"] == "PENDING":
            ts = op.get("StepDetails", {}).get("NextAttemptTimestamp")
            return ts.timestamp() if ts else None
        return None

    def armed_timers(self) -> list[tuple[float, str]]:
        out = []
        for oid in self.order:
            t = self.timer_of(oid)
            if t is not None:
                out.append((t, oid))
        return sorted(out)

    def fire_timer(self, oid: str) -> None:
        op = self.ops[oid]
        if op["Type"] == "WAIT" and op["Status"] == "STARTED":
            op["Status"] = "SUCCEEDED"
            op["EndTimestamp"] = self.svc_dt()
        elif op["Type"] == "STEP" and op["Status"] == "PENDING":
            op["Status"] = "READY"
        else:
            return
        self._touch(oid)
        self.seq += 1
        self.applied.append({"seq": self.seq, "inv": self.inv, "world": "timer", "Id": oid, "status": op["Status"]})

    def fire_due(self) -> int:
        n = 0
        for _, oid in self.due_timers():
            self.fire_timer(oid)
            n += 1
        return n

    # ------------------------------------------------------------------ world events
    def awaiting_external(self) -> list[str]:
        return [
            oid
            for oid in self.order
            if self.ops[oid]["Type"] in ("CALLBACK", "CHAINED_INVOKE") and self.ops[oid]["Status"] == "STARTED"
        ]

    def complete_external(self, oid: str, status: str, result: str | None = None, error: dict | None = None) -> bool:
        op = self.ops.get(oid)
        if not op or op["Status"] != "STARTED" or op["Type"] not in ("CALLBACK", "CHAINED_INVOKE"):
            return False
        op["Status"] = status
        op["EndTimestamp"] = self.svc_dt()
        key = "CallbackDetails" if op["Type"] == "CALLBACK" else "ChainedInvokeDetails"
        det = op.setdefault(key, {})
        if result is not None:
            det["Result"] = result
        if error is not None:
            det["Error"] = error
        self._touch(oid)
        self.seq += 1
        self.applied.append(
            {"seq": self.seq, "inv": self.inv, "world": "external", "Id": oid, "status": status, "result": result, "error": error}
        )
        return True

    # ------------------------------------------------------------------ invocation payloads
    def begin_invocation(self, first_page: int | None = None, page_size: int | None = None) -> dict:
        """Build the JSON invocation event. first_page = number of operations carried in the event
        (None = all); remaining operations are served by get_state in pages of page_size."""
        self.inv += 1
        self.fire_due()
        self.dirty = []
        tok = self._new_token()
        all_ops = [op_to_json(self.ops[i]) for i in self.order if not self._pruned(i)]
        if first_page is None or first_page >= len(all_ops):
            head, rest = all_ops, []
        else:
            head, rest = all_ops[:first_page], all_ops[first_page:]
        marker = ""
        if rest:
            marker = "init-%d-%d" % (self.inv, first_page)
            self._pending_pages[marker] = (rest, page_size or len(rest), "json")
        return {
            "DurableExecutionArn": self.arn,
            "CheckpointToken": tok,
            "InitialExecutionState": {"Operations": head, "NextMarker": marker},
        }

    def get_state(self, token: str, marker: str) -> dict:
        self.api_calls += 1
        ent = self._pending_pages.pop(marker, None)
        if ent is None:
            self.oddities.append({"kind": "unknown-marker", "marker": marker})
            return {"Operations": [], "NextMarker": None}
        rest, size, form = ent
        self._page_calls = getattr(self, "_page_calls", 0) + 1
        if self.empty_page_every and self._page_calls % self.empty_page_every == 0 and not marker.endswith("~"):
            # a page may be empty and still carry a marker (a filtered listing): the real page comes with the next call
            nm = marker + "~"
            self._pending_pages[nm] = (rest, size, form)
            return {"Operations": [], "NextMarker": nm}
        page, rest = rest[:size], rest[size:]
        nm = None
        if rest:
            nm = marker + "+"
            self._pending_pages[nm] = (rest, size, form)
        # boto3 returns datetimes for timestamp members
        ops = [self.ops_with_dt(o) if form == "json" else o for o in page]
        return {"Operations": ops, "NextMarker": nm}

    def ops_with_dt(self, o_json: dict) -> dict:
        return wire_view(self.ops[o_json["Id"]]) if o_json["Id"] in self.ops else o_json

    # ------------------------------------------------------------------ checkpoint
    def checkpoint(self, token: str, updates: list[dict], resp_page: int | None = None) -> dict:
        self.api_calls += 1
        if token != self.token:
            self.oddities.append({"kind": "stale-token", "got": token, "want": self.token, "inv": self.inv})
        self.fire_due()
        for u in updates:
            self.apply_update(u)
        tok = self._new_token()
        changed = [wire_view(self.ops[i]) for i in self.dirty if i in self.ops]
        self.dirty = []
        nm = None
        if resp_page is not None and len(changed) > resp_page:
            head, rest = changed[:resp_page], changed[resp_page:]
            nm = "resp-%d" % self.token_n
            self._pending_pages[nm] = (rest, max(1, resp_page), "dt")  # resp_page 0 = an empty first page; the pages behind it hold one operation each
            changed = head
        out = {"CheckpointToken": tok, "NewExecutionState": {"Operations": changed}}
        if nm:
            out["NewExecutionState"]["NextMarker"] = nm
        return out

    def apply_update(self, u: dict) -> None:  # noqa: C901, PLR0912, PLR0915
        oid, typ, act = u.get("Id"), u.get("Type"), u.get("Action")
        now = self.svc_dt()
        self.seq += 1
        op = self.ops.get(oid)
        before = op["Status"] if op else None
        if typ == "EXECUTION":
            if self.exec_result is not None:
                self.oddities.append({"kind": "execution-result-twice", "Id": oid})
            self.exec_result = {"action": act, "payload": u.get("Payload"), "error": u.get("Error")}
            self.applied.append({"seq": self.seq, "inv": self.inv, "u": u, "before": None, "status": act})
            return
        if op is None:
            op = {"Id": oid, "Type": typ, "Status": "STARTED", "StartTimestamp": now}
            for k in ("ParentId", "Name", "SubType"):
                if u.get(k):
                    op[k] = u[k]
            self.ops[oid] = op
            self.order.append(oid)
            if act != "START":
                self.oddities.append({"kind": "first-update-not-start", "Id": oid, "Action": act})
        elif before in TERMINAL:
            self.oddities.append({"kind": "update-after-terminal", "Id": oid, "Action": act, "status": before})
        if typ == "STEP":
            sd = op.setdefault("StepDetails", {"Attempt": 0})
            op["_lean"] = self.lean_step_details
            if act == "START":
                op["Status"] = "STARTED"
                sd.pop("NextAttemptTimestamp", None)
            elif act == "RETRY":
                op["Status"] = "PENDING"
                sd["Attempt"] = sd.get("Attempt", 0) + 1
                delay = (u.get("StepOptions") or {}).get("NextAttemptDelaySeconds", 0)
                sd["NextAttemptTimestamp"] = _dt.datetime.fromtimestamp(now.timestamp() + max(delay, 0), tz=UTC)
                if u.get("Error"):
                    sd["Error"] = u["Error"]
                if u.get("Payload") is not None:
                    sd["Result"] = u["Payload"]
            elif act == "SUCCEED":
                op["Status"] = "SUCCEEDED"
                op["EndTimestamp"] = now
                sd.pop("NextAttemptTimestamp", None)
                if u.get("Payload") is not None:
                    sd["Result"] = u["Payload"]
                else:
                    sd.pop("Result", None)
            elif act == "FAIL":
                op["Status"] = "FAILED"
                op["EndTimestamp"] = now
                sd.pop("NextAttemptTimestamp", None)
                if u.get("Error"):
                    sd["Error"] = u["Error"]
        elif typ == "WAIT":
            if act == "START":
                secs = (u.get("WaitOptions") or {}).get("WaitSeconds", 1)
                op["Status"] = "STARTED"
                op["WaitDetails"] = {
                    "ScheduledEndTimestamp": _dt.datetime.fromtimestamp(now.timestamp() + secs, tz=UTC)
                }
            elif act == "CANCEL":
                op["Status"] = "CANCELLED"
                op["EndTimestamp"] = now
        elif typ == "CALLBACK":
            if act == "START":
                self.cb_n += 1
                op["Status"] = "STARTED"
                op["CallbackDetails"] = {"CallbackId": "cbid-%d-%s" % (self.cb_n, oid[:8])}
        elif typ == "CHAINED_INVOKE":
            if act == "START":
                op["Status"] = "STARTED"
                op["ChainedInvokeDetails"] = {}
        elif typ == "CONTEXT":
            cd = op.setdefault("ContextDetails", {})
            if act == "START":
                op["Status"] = "STARTED"
            elif act == "SUCCEED":
                op["Status"] = "SUCCEEDED"
                op["EndTimestamp"] = now
                if u.get("Payload") is not None:
                    cd["Result"] = u["Payload"]
                rc = (u.get("ContextOptions") or {}).get("ReplayChildren", False)
                cd["ReplayChildren"] = bool(rc)
            elif act == "FAIL":
                op["Status"] = "FAILED"
                op["EndTimestamp"] = now
                if u.get("Error"):
                    cd["Error"] = u["Error"]
        self._touch(oid)
        self.applied.append({"seq": self.seq, "inv": self.inv, "u": u, "before": before, "status": op["Status"]})
        if self.on_apply is not None:
            self.on_apply(u, op)
