"""C07 - suspension is sound and live: PENDING only when durably parked, and never stuck."""
import copy
import random

from checks.worldcheck import Spec

PROP = "C07"


def explicit(tier, seed):
    rng = random.Random(seed)
    i = 0
    # livelock hunt: >=2 branches parking on an already-due timed suspension, staggered
    for nb in (2, 3, 4):
        for kind in ("par", "map"):
            for timeout in (None, 0, 30, 365 * 10000 * 86400):
                for extra in ("none", "running-sibling", "waiting-sibling", "nested"):
                    if tier == "quick" and rng.random() < 0.5:
                        continue
                    inv = {"k": "invoke", "fn": "f", "payload": 1, "cfg": None if timeout is None else {"timeout": timeout}}
                    brs = [{"body": [{"k": "step", "val": b}, dict(inv)]} for b in range(nb)]
                    if extra == "running-sibling":
                        brs.append({"body": [{"k": "step", "script": [{"do": "ok", "val": "slow", "gate": "slow"}]}]})
                    elif extra == "waiting-sibling":
                        brs.append({"body": [{"k": "wait", "s": 3}, {"k": "step", "val": "w"}]})
                    elif extra == "nested":
                        brs = [{"body": [{"k": "par", "branches": brs[:2], "cfg": {"preset": "all_completed"}}]}] + brs[2:] + [{"body": [dict(inv)]}]
                    cfg = {"preset": "all_completed", "max_conc": rng.choice([None, 2])}
                    node = {"k": "par", "branches": brs, "cfg": cfg} if kind == "par" else \
                        {"k": "map", "items": list(range(len(brs))), "per_item": brs, "body": [], "cfg": cfg}
                    holds = [{"match": {"kind": "gate", "name": "slow"}, "until": {"event": {"kind": "susp", "opkind": "invoke", "count": 2}}, "delay_ms": 5}]
                    opts = {"hang_s": 3.0, "idle_s": 0.5}
                    if i % 2:
                        opts["perturb"] = {"p": 0.03, "seed": i}
                    yield {"label": "due-now-park|%s|t%s|%s" % (kind, timeout, extra), "prog": {"body": [node, {"k": "step", "val": "end"}]},
                           "prog_seed": 21000 + i, "pattern": {"p": "plain"}, "holds": holds, "opts": opts, "max_inv": 30}
                    i += 1
    # parked branches combined with failing / succeeding branches under tolerant completion configs, finish order forced by gates:
    # the decision to suspend must be re-evaluated whichever branch event comes last
    for cfg in ({"tol_n": 1}, {"tol_n": 2}, {"tol_pct": 60}, {"min_ok": 2, "tol_n": 1}, {"preset": "all_completed"}, {"min_ok": 3}):
        for parked in ("cb", "wait", "invoke"):
            for last in ("fail", "ok", "parked"):
                if tier == "quick" and rng.random() < 0.4:
                    continue
                pk = {"cb": {"k": "cb"}, "wait": {"k": "wait", "s": 30}, "invoke": {"k": "invoke", "fn": "f", "payload": 1}}[parked]
                failing = {"k": "step", "script": [{"do": "fail", "cls": "ValueError", "msg": "x", "gate": "gf"}], "retry": {"kind": "preset", "name": "none"}}
                okstep = {"k": "step", "script": [{"do": "ok", "val": 1, "gate": "go"}]}
                brs = [{"body": [{"k": "step", "val": 0}, pk, {"k": "step", "val": "after-park"}]}, {"body": [failing]}, {"body": [okstep]}]
                node = {"k": "par", "branches": brs, "cfg": cfg}
                parked_ev = {"event": {"kind": "susp", "path": "0/b0/1"}}
                holds = []
                if last == "fail":
                    holds = [{"match": {"kind": "gate", "name": "gf"}, "until": {"all": [parked_ev, {"event": {"kind": "fn_exit", "fnkind": "branch", "path": "0/b2"}}]}, "delay_ms": 3}]
                elif last == "ok":
                    holds = [{"match": {"kind": "gate", "name": "go"}, "until": {"all": [parked_ev, {"event": {"kind": "fn_exit", "fnkind": "branch", "path": "0/b1"}}]}, "delay_ms": 3}]
                yield {"label": "park+tolerated-failure|%s|last-%s" % (parked, last), "prog": {"body": [node, {"k": "step", "val": "end"}]},
                       "prog_seed": 21300 + i, "pattern": {"p": "plain"}, "holds": holds, "opts": {"hang_s": 3.0, "idle_s": 0.6}, "max_inv": 20}
                i += 1
    # retries whose timer has already passed, wait_for_condition with zero delay, timers fired one at a time / together
    for j in range(12 if tier == "quick" else 100):
        brs = []
        for b in range(rng.randrange(2, 5)):
            k = rng.choice(["retry0", "wfc0", "wait", "cb", "retry2"])
            if k == "retry0":
                body = [{"k": "step", "script": [{"do": "fail", "cls": "ValueError", "msg": "x"}, {"do": "ok", "val": b}], "retry": {"decisions": [("retry", 0), ("stop",)]}}]
            elif k == "retry2":
                body = [{"k": "step", "script": [{"do": "fail", "cls": "ValueError", "msg": "x"}] * 2 + [{"do": "ok", "val": b}], "retry": {"decisions": [("retry", 1), ("retry", 2), ("stop",)]}}]
            elif k == "wfc0":
                body = [{"k": "wfc", "init": 0, "decisions": [("cont", 0), ("cont", 0), ("stop",)]}]
            elif k == "wait":
                body = [{"k": "wait", "s": rng.choice([1, 2, 5])}, {"k": "step", "val": b}]
            else:
                body = [{"k": "cb"}, {"k": "step", "val": b}]
            brs.append({"body": body})
        node = {"k": "par", "branches": brs, "cfg": {"preset": "all_completed", "max_conc": rng.choice([None, 1, 2])}}
        world = {"timers": rng.choice(["one", "all"]), "spurious": rng.choice([0, 0, 1, 2]), "complete": {},
                 "default_complete": {"when": rng.choice(["between", "immediate", "after_pendings"]), "status": "SUCCEEDED", "result": '"r"'},
                 "external_one_at_a_time": rng.random() < 0.5}
        opts = {"hang_s": 3.0}
        if j % 3 == 0:
            opts["perturb"] = {"p": 0.03, "seed": j}
        elif j % 3 == 1:
            opts["perturb"] = {"p": 0.0, "seed": j, "files": ["executor.py", "state.py", "models.py"], "after_sync": {"p": 0.5, "sleep": 0.003}}
        yield {"label": "mixed-parking", "prog": {"body": [node, {"k": "wait", "s": 1}, {"k": "step", "val": "end"}]}, "prog_seed": 21500 + j,
               "pattern": {"p": "plain"}, "world": world, "opts": opts, "max_inv": 40}


def late_timer_cases(tier, seed):
    """The service acts on a due timer a little late, so a branch resumed by the in-process timer finds its operation still pending
    and parks again at once, while a sibling keeps the block running; the thread that signals / hands over loses the CPU right after
    doing so (after-sync perturbation). Every such run must still end, and every PENDING must still be sound."""
    rng = random.Random(seed + 5)
    i = 0
    for lag in (0.3, 1.0):
        for kind in ("par", "map"):
            for parker in ("retry", "wfc", "retry-amo", "two-retriers"):
                for rep in range(2 if tier == "quick" else 6):
                    if parker == "wfc":
                        p0 = [{"k": "wfc", "init": 0, "decisions": [("cont", 1), ("cont", 1), ("stop",)]}]
                    else:
                        p0 = [{"k": "step", "script": [{"do": "fail", "cls": "ValueError", "msg": "x"}, {"do": "ok", "val": 7}],
                               "retry": {"decisions": [("retry", 1), ("stop",)]}, "sem": "most" if parker == "retry-amo" else "least"}]
                    brs = [{"body": p0 + [{"k": "step", "val": "next"}]}, {"body": [{"k": "step", "script": [{"do": "ok", "val": "busy", "gate": "busy"}]}]}]
                    if parker == "two-retriers":
                        brs.insert(1, {"body": [dict(p0[0]), {"k": "wait", "s": 1}, {"k": "step", "val": "n2"}]})
                    node = {"k": "par", "branches": brs, "cfg": {"preset": "all_completed"}} if kind == "par" else \
                        {"k": "map", "items": list(range(len(brs))), "per_item": brs, "body": [], "cfg": None}
                    holds = [{"match": {"kind": "gate", "name": "busy"}, "until": {"event": {"kind": "ret", "path": "0/b0/0"}}, "delay_ms": rng.choice([0, 3])}]
                    yield {"label": "late-timer|%s|%s" % (kind, parker), "prog": {"body": [node, {"k": "step", "val": "end"}]}, "prog_seed": 21800 + i,
                           "pattern": {"p": "plain"}, "holds": holds, "world": {"complete": {}, "timers": "all", "timer_lag": lag}, "max_inv": 12,
                           "opts": {"idle_s": 0.8, "hang_s": 3.0,
                                    "perturb": {"p": 0.0, "seed": seed * 977 + i, "files": ["executor.py", "state.py", "models.py"],
                                                "after_sync": {"p": rng.choice([0.4, 0.7]), "sleep": rng.choice([0.002, 0.004, 0.008])}}}}
                    i += 1


def fault_hang_cases(tier, seed):
    """No invocation may run forever after a checkpoint call failed either (the fail-stop details belong to C06; here only 'the
    invocation ends' is judged): the C06 shapes in which a thread is blocked on, or about to enter, the checkpoint pipeline."""
    from checks import c06

    i = 0
    for sname in ("seq-late-enqueue", "map-resubmitted-no-further-checkpoint", "map-resubmitted", "par-amo-retry", "par-running", "map-suspended"):
        for k in range(1, 5 if tier == "quick" else 9):
            for err in (c06.ERRS[0], c06.ERRS[5]) if tier != "quick" else (c06.ERRS[k % 2 * 5],):
                delay = 40 if "late-enqueue" in sname else [0, 15][k % 2]
                yield {"label": "fault-hang|" + sname, "prog": {"body": c06.SHAPES[sname]}, "prog_seed": 21900 + i, "pattern": {"p": "plain"}, "max_inv": 10,
                       "world": {"complete": {}, "timers": "all"}, "holds": copy.deepcopy(c06.HOLDS.get(sname, [])),
                       "faults": [{"match": {"op": "checkpoint", "n": k}, "err": err, "when": "before", "delay_ms": delay}],
                       "opts": dict({"hang_s": 3.0}, **c06.OPTS.get(sname, {}))}
                i += 1
    # the failing call is the fetch of a following page of a paginated checkpoint response
    for sname in ("seq", "par-running", "map-suspended"):
        for nth in range(1, 4 if tier == "quick" else 8):
            yield {"label": "fault-hang-page-fetch|" + sname, "prog": {"body": c06.SHAPES[sname]}, "prog_seed": 21940 + i, "pattern": {"p": "plain"}, "max_inv": 10,
                   "world": {"complete": {}, "timers": "all"}, "pages": {"resp_page": 1},
                   "faults": [{"match": {"op": "get_state", "n_inv": None}, "err": c06.ERRS[nth % 2 * 5], "when": "before", "nth": nth}], "opts": {"hang_s": 3.0}}
            i += 1
    # the same with the signalling thread descheduled right after each signal (a waiter woken by the failed batch runs ahead of the
    # checkpoint thread's remaining failure handling)
    for sname in ("seq", "par-running", "big-step"):
        for k in range(1, 5 if tier == "quick" else 8):
            yield {"label": "fault-hang-after-sync|" + sname, "prog": {"body": c06.SHAPES[sname]}, "prog_seed": 21950 + i, "pattern": {"p": "plain"}, "max_inv": 10,
                   "world": {"complete": {}, "timers": "all"}, "faults": [{"match": {"op": "checkpoint", "n": k}, "err": c06.ERRS[k % 2 * 5], "when": "before"}],
                   "opts": {"hang_s": 3.0, "perturb": {"p": 0.0, "seed": seed * 31 + i, "files": ["threading.py", "state.py", "executor.py"],
                                                       "after_sync": {"p": 0.8, "sleep": 0.003}}}}
            i += 1


def slow_failure_cases(tier, seed):
    """The checkpoint thread is slow (1 ms per statement in state.py) while it handles a failed call, and the user thread comes back
    from its step function at a swept instant inside that handling: whichever statement of the handling it meets, it must not be
    left waiting for a record nobody will process."""
    i = 0
    for shape in ("top", "branch"):
        body = [{"k": "step", "script": [{"do": "ok", "val": 1, "gate": "fn"}]}, {"k": "step", "val": 2}]
        if shape == "branch":
            body = [{"k": "par", "branches": [{"body": body}], "cfg": None}]
        for sweep in (range(0, 40, 4) if tier == "quick" else range(0, 44, 2)):
            yield {"label": "slow-failure-handling|" + shape, "prog": {"body": body}, "prog_seed": 21990 + i, "pattern": {"p": "plain"}, "max_inv": 6,
                   "world": {"complete": {}, "timers": "all"},
                   "holds": [{"match": {"kind": "gate", "name": "fn"}, "until": {"event": {"kind": "api", "has": "fault"}}, "delay_ms": sweep}],
                   "faults": [{"match": {"op": "checkpoint", "n": 1}, "err": {"kind": "client", "status": 500, "code": "ServiceException", "message": "boom"}, "when": "before"}],
                   "opts": {"hang_s": 3.0, "idle_s": 0.6, "perturb": {"p": 0.0, "seed": i, "files": ["state.py", "threading.py"],
                                                                     "slow_thread": {"re": r"^dex-handler_0$", "sleep": 0.001}}}}
            i += 1


def explicit_all(tier, seed):
    yield from explicit(tier, seed)
    yield from late_timer_cases(tier, seed)
    yield from fault_hang_cases(tier, seed)
    yield from slow_failure_cases(tier, seed)


SPEC = Spec(
    PROP,
    props=["C07"],
    level="exploration",
    explicit=explicit_all,
    gen={"kinds": ["wait", "wait", "cb", "wfcb", "invoke", "wfc", "rstep", "step", "child", "par", "par", "map", "map"], "max_ops": 12},
    quick={"plain": 90, "enum": 6, "rand": 16, "async": 0, "perturb": 30},
    thorough={"plain": 900, "enum": 60, "rand": 200, "async": 60, "perturb": 300, "k1": 16},
    rule="programs mixing waits, retries (incl. delay 0), callbacks, invokes (default 'no timeout', 0 and 30 s) and wait_for_condition at top "
    "level and inside nested map/parallel, with timers fired one at a time or together, external completions delivered inside the START "
    "response / between invocations / after spurious re-invocations, one at a time or all; a livelock hunt with 2-4 branches that park "
    "on an already-due timed suspension, staggered by a sibling held inside its step function and perturbed by LINE-level yield "
    "injection; retries / conditions resumed by the in-process timer while the service acts on the due timer 0.3-1 s late and a sibling keeps the block running, under after-sync perturbation (the thread that sets an event, puts on a queue, submits to the pool or releases a lock is descheduled right afterwards); random crash points; a failing checkpoint call at the first positions of six shapes in which a thread is blocked on, or about to enter, the checkpoint pipeline (only 'the invocation ends' is judged there). Oracle: at every PENDING outcome each operation that is parked (last event = suspension) has an "
    "armed wake source in the backend table (WAIT started / STEP pending or ready / callback or invoke started-or-completed) and no "
    "non-orphan user function that was already running when the last other branch parked is still executing; liveness restated as "
    "bounded progress: the execution reaches SUCCEEDED/FAILED within the scenario's invocation bound, the driver never finds it PENDING "
    "with nothing to wake it, and no invocation hangs (logical hang rule) or spins (more than 200 consecutive empty checkpoints with no "
    "user function active and no change of the backend table); a lock-order sanitizer over the SDK's own locks (dw/lockorder.py) reports two threads taking two lock instances in opposite orders without a common gate lock, and a thread blocking on a non-reentrant lock it holds, whether or not the deadlock struck in the run. Non-trivial = a PENDING outcome was judged.",
    deciding=lambda r: (r.get("stats") or {}).get("c07_pending_outcomes", 0) > 0 or r.get("stop") in ("spin", "hang", "stuck-pending"),
    minima={"c07_pending_outcomes": 300, "c07_lock_acquisitions_observed": 10000},
)
cases = SPEC.cases
run_case = SPEC.run_case
if __name__ == "__main__":
    SPEC.main("checks.c07")
