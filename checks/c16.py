"""C16 - oversized results stay out of checkpoints and responses yet are fully recovered."""
import random

from checks.worldcheck import Spec

PROP = "C16"
L = 256 * 1024
R = 6 * 1024 * 1024 - 50


def explicit(tier, seed):  # noqa: C901
    rng = random.Random(seed)
    i = 0

    def case(label, body, pat=None, **kw):
        nonlocal i
        i += 1
        c = {"label": label, "prog": dict({"body": body}, **kw.pop("prog_extra", {})), "prog_seed": 15000 + i, "pattern": pat or {"p": "plain"}, "max_inv": 20}
        c.update(kw)
        return c

    tail = [{"k": "wait", "s": 1}, {"k": "step", "val": "after"}, {"k": "wait", "s": 1}, {"k": "step", "val": "end"}]
    sizes = [L - 4, L - 3, L - 2, L - 1, L, L + 1, L + 50, 2 * L]
    if tier == "quick":
        sizes = [L - 3, L - 2, L - 1, L + 50, 2 * L]
    for n in sizes:
        # child context whose own result is n characters (n+2 serialized)
        for cfg in (None, {"summary": '{"custom":"summary"}'}):
            yield case("child-%d" % (n - L), [{"k": "child", "body": [{"k": "step", "val": 1}, {"k": "step", "val": 2, "sem": "most"}], "result": {"big": n}, "cfg": cfg}] + tail,
                       pat={"p": "crash_enum", "max_points": 12} if n in (L + 50,) else None)
        # a single branch whose result is oversized
        for kind in ("par", "map"):
            for cfg in (None, {"preset": "all_completed"}, {"summary": '{"s":1}', "preset": "all_completed"}):
                if tier == "quick" and cfg and rng.random() < 0.5:
                    continue
                br = {"body": [{"k": "step", "val": 1}], "result": {"big": n}}
                small = {"body": [{"k": "step", "val": 2}]}
                if kind == "par":
                    node = {"k": "par", "branches": [br, small], "cfg": cfg}
                else:
                    node = {"k": "map", "items": [1, 2], "per_item": [br, small], "body": [], "cfg": cfg}
                yield case("%s-branch-%d" % (kind, n - L), [node] + tail)
    # batch result oversized though every branch is within the limit
    for kind in ("par", "map"):
        for nb, each in ((3, L // 2), (2, L - 100), (4, L // 4 + 10), (4, L // 8)):
            for cfg in (None, {"preset": "all_completed"}, {"summary": '{"mine":true}'}):
                brs = [{"body": [{"k": "step", "val": j}, {"k": "step", "val": j + 10, "sem": "most"}], "result": {"big": each}} for j in range(nb)]
                node = {"k": "par", "branches": brs, "cfg": cfg} if kind == "par" else {"k": "map", "items": list(range(nb)), "per_item": brs, "body": [], "cfg": cfg}
                yield case("%s-batch-%dx%d" % (kind, nb, each), [node] + tail, pat={"p": "crash_enum", "max_points": 10} if (cfg is None and nb == 3) else None)
    # oversized batch containing a failed branch (tolerated)
    for kind in ("par", "map"):
        brs = [{"body": [{"k": "step", "val": 1}], "result": {"big": L - 50}},
               {"body": [{"k": "step", "script": [{"do": "fail", "cls": "ValueError", "msg": "branch failed"}], "retry": {"kind": "preset", "name": "none"}}]},
               {"body": [{"k": "step", "val": 3}], "result": {"big": L // 2}}]
        cfg = {"preset": "all_completed"}
        node = {"k": "par", "branches": brs, "cfg": cfg} if kind == "par" else {"k": "map", "items": [0, 1, 2], "per_item": brs, "body": [], "cfg": cfg}
        yield case("%s-batch-with-failed-branch" % kind, [node] + tail)
        brs2 = [brs[0], {"body": [{"k": "step", "val": 0}, {"k": "raise", "cls": "ValueError", "msg": "raw user error in branch body"}]}, brs[2]]
        node2 = {"k": "par", "branches": brs2, "cfg": cfg} if kind == "par" else {"k": "map", "items": [0, 1, 2], "per_item": brs2, "body": [], "cfg": cfg}
        yield case("%s-batch-with-raising-branch-body" % kind, [node2] + tail)
    # oversized batch that completed EARLY (minimum reached / tolerance exceeded while other branches were still running or never
    # started): every replay must rebuild the same statuses and the same completion reason
    for kind in ("par", "map"):
        for cfg, decider in (({"min_ok": 1}, "ok"), ({"min_ok": 1, "max_conc": 1}, "ok"), ({"preset": "first_successful"}, "ok"), ({"tol_n": 0}, "fail"),
                             ({"min_ok": 2, "tol_n": 1}, "ok")):
            first = {"body": [{"k": "step", "val": 1}], "result": {"big": L + 4000}}
            if decider == "fail":
                first = {"body": [{"k": "step", "val": "x" * 10}, {"k": "step", "script": [{"do": "fail", "cls": "ValueError", "msg": "m" * (L + 4000)}],
                                                                   "retry": {"kind": "preset", "name": "none"}}]}
            slow = {"body": [{"k": "step", "script": [{"do": "ok", "val": "slow", "gate": "slow"}]}, {"k": "step", "val": "slow2"}]}
            brs = [first, slow, {"body": [{"k": "step", "script": [{"do": "ok", "val": "slow", "gate": "slow"}]}]}]
            if cfg.get("min_ok") == 2:
                brs.insert(1, {"body": [{"k": "step", "val": "second"}], "result": {"big": 1000}})
            node = {"k": "par", "branches": brs, "cfg": cfg} if kind == "par" else {"k": "map", "items": list(range(len(brs))), "per_item": brs, "body": [], "cfg": cfg}
            holds = [{"match": {"kind": "gate", "name": "slow"}, "until": {"any": [{"applied": {"Name": "0", "Type": "CONTEXT", "Action": "SUCCEED"}},
                                                                               {"applied": {"Name": "0", "Type": "CONTEXT", "Action": "FAIL"}}]}}]
            yield case("%s-early-completion-%s" % (kind, "-".join("%s%s" % kv for kv in sorted(cfg.items()))), [{"k": "try", "body": node, "catch": "*"}] + tail,
                       holds=holds, opts={"idle_s": 0.4, "hang_s": 3.0})
    # a branch that completed an oversized child context and then parks on a timer while a sibling keeps the block running: the
    # branch is resumed in the SAME invocation and runs into its summarised context again, outside replay mode
    for kind in ("par", "map"):
        for parker in ({"k": "wait", "s": 1}, {"k": "step", "script": [{"do": "fail", "cls": "ValueError", "msg": "once"}, {"do": "ok", "val": 5}],
                                               "retry": {"decisions": [("retry", 1), ("stop",)]}},
                       {"k": "wfc", "init": 0, "decisions": [("cont", 1), ("stop",)]}):
            b0 = {"body": [{"k": "child", "body": [{"k": "step", "val": "inner"}], "result": {"big": L + 700}}, parker, {"k": "step", "val": "resumed"}]}
            b1 = {"body": [{"k": "step", "script": [{"do": "ok", "val": "sib", "gate": "sib"}]}]}
            node = {"k": "par", "branches": [b0, b1], "cfg": None} if kind == "par" else {"k": "map", "items": [0, 1], "per_item": [b0, b1], "body": [], "cfg": None}
            holds = [{"match": {"kind": "gate", "name": "sib"}, "until": {"event": {"kind": "ret", "path": "0/b0/2"}}}]
            yield case("%s-branch-resumed-in-same-invocation-%s" % (kind, parker["k"]), [node] + tail, holds=holds, opts={"idle_s": 0.6, "hang_s": 3.0})
    # nested oversized contexts
    yield case("nested-oversized", [{"k": "child", "body": [{"k": "child", "body": [{"k": "step", "val": 1}], "result": {"big": L + 5}}, {"k": "step", "val": 2}],
                                      "result": {"big": L + 9}}] + tail, pat={"p": "crash_enum", "max_points": 12})
    # non-ASCII payload through a UTF-8 JSON serdes: characters within the limit, bytes over it
    yield case("utf8-chars-vs-bytes", [{"k": "child", "body": [{"k": "step", "val": 1}], "result": {"big": 140000, "ch": "é"}, "cfg": {"serdes": "utf8json"}}] + tail)
    # 4-byte characters through a raw-UTF-8 serdes: 65 537 .. 87 381 of them are under the limit in characters and in 3-byte terms, over it in bytes
    for nch, ch in ((66000, "\U0001F600"), (75000, "\U00020000"), (86000, "\U0001F600"), (60000, "\U0001F600"), (90000, "\U0001F600")):
        yield case("utf8-4byte-%d" % nch, [{"k": "child", "body": [{"k": "step", "val": 1}], "result": {"big": nch, "ch": ch}, "cfg": {"serdes": "utf8json"}}] + tail)
    # oversized batch whose items were recorded with a custom ITEM serdes: the rebuilt result must read them back with that serdes
    for kind in ("par", "map"):
        for iser in ("tagged", "ctxbound", "exotic"):
            brs = [{"body": [{"k": "step", "val": j}], "result": {"big": L // 2 + 800}} for j in range(3)]
            if iser == "exotic":
                brs[0] = {"body": [{"k": "step", "val": 0}], "result": {"exotic": True}}
                brs[1]["result"] = {"big": L - 900}
            cfg = {"item_serdes": iser, "preset": "all_completed"}
            if iser == "exotic":
                cfg["serdes"] = "exotic"
            node = {"k": "par", "branches": brs, "cfg": cfg} if kind == "par" else {"k": "map", "items": [0, 1, 2], "per_item": brs, "body": [], "cfg": cfg}
            yield case("%s-batch-item-serdes-%s" % (kind, iser), [{"k": "try", "body": node, "catch": "*"}] + tail)
    yield case("utf8-small", [{"k": "child", "body": [{"k": "step", "val": 1}], "result": {"big": 1000, "ch": "é"}, "cfg": {"serdes": "utf8json"}}] + tail)
    # final result / error around the response limit
    for n in (R - 4, R - 3, R - 2, R - 1, R, R + 1, R + 1000):
        yield case("final-result-%d" % (n - R), [{"k": "step", "val": 1}], prog_extra={"ret": {"big": n}})
    for n in (R - 300, R + 100):
        yield case("final-error-%d" % (n - R), [{"k": "raise", "cls": "ValueError", "msg": "e" * n}])
    # mostly non-ASCII final results / errors: few characters, many bytes
    for n in (900_000, 1_050_000, 2_200_000, 3_000_000):
        yield case("final-result-cjk-%d" % n, [{"k": "step", "val": 1}], prog_extra={"ret": {"big": n, "ch": "\u6f22"}})
    # error messages whose JSON text is much longer than the message (quotes, backslashes, newlines are escaped)
    for ch, n in (('"', 3_200_000), ("\\", 3_150_000), ("\n", 3_300_000), ("\u00e9", 2_000_000), ('"', 2_900_000)):
        yield case("final-error-escaped-%d" % n, [{"k": "raise", "cls": "ValueError", "msg": ch * n}])
    yield case("final-error-cjk", [{"k": "raise", "cls": "ValueError", "msg": "\u6f22" * 2_500_000}])


def more_cases(tier, seed):
    i = 0
    tail = [{"k": "wait", "s": 1}, {"k": "step", "val": "after"}, {"k": "wait", "s": 1}, {"k": "step", "val": "end"}]
    # a user-supplied summary generator that fails for this result: whatever the SDK records instead, it is not the oversized payload
    for cls in ("IndexError", "ValueError"):
        for n in (L + 50, 2 * L):
            yield {"label": "summary-generator-raises|child", "prog_seed": 15800 + i, "pattern": {"p": "plain"}, "max_inv": 12,
                   "prog": {"body": [{"k": "try", "catch": "*", "body": {"k": "child", "body": [{"k": "step", "val": 1}], "result": {"big": n}, "cfg": {"summary_raises": cls}}}] + tail}}
            i += 1
            for kind in ("par", "map"):
                brs = [{"body": [{"k": "step", "val": b}], "result": {"big": n // 2 + 100}} for b in range(3)]
                cfg = {"summary_raises": cls, "preset": "all_completed"}
                node = {"k": "par", "branches": brs, "cfg": cfg} if kind == "par" else {"k": "map", "items": [0, 1, 2], "per_item": brs, "body": [], "cfg": cfg}
                yield {"label": "summary-generator-raises|" + kind, "prog_seed": 15800 + i, "pattern": {"p": "plain"}, "max_inv": 12,
                       "prog": {"body": [{"k": "try", "catch": "*", "body": node}] + tail}}
                i += 1
    # a batch-level serdes and NO item serdes: the items fall back to the batch-level one, on the first run and when the summarised
    # batch is rebuilt from its recorded children
    for kind in ("par", "map"):
        for n in (L // 2 + 800, 2000):
            brs = [{"body": [{"k": "step", "val": j}], "result": {"big": n}} for j in range(3)]
            cfg = {"serdes": "tagbr", "preset": "all_completed"}
            node = {"k": "par", "branches": brs, "cfg": cfg} if kind == "par" else {"k": "map", "items": [0, 1, 2], "per_item": brs, "body": [], "cfg": cfg}
            yield {"label": "%s-batch-level-serdes-only|%s" % (kind, "oversized" if n > 2000 else "small"), "prog_seed": 15850 + i, "pattern": {"p": "plain"}, "max_inv": 12,
                   "prog": {"body": [node] + tail}}
            i += 1
    # a summarised context INSIDE a branch that parks on a timer while a sibling keeps the block running: the timer thread resumes the
    # branch in the same process, and the second pass rebuilds the context from what this invocation holds in memory
    for kind in ("par", "map"):
        for inner in ("child", "map"):
            for nsteps in (1, 3):
                if inner == "child":
                    big = {"k": "child", "body": [{"k": "step", "script": [{"do": "ok", "big": 100 * 1024}]} for _ in range(nsteps)], "result": {"big": L + 700}}
                else:
                    big = {"k": "map", "items": list(range(nsteps + 1)), "body": [], "cfg": None,
                           "per_item": [{"body": [{"k": "step", "script": [{"do": "ok", "big": 100 * 1024}]}], "result": {"big": L // 2 + 700}} for _ in range(nsteps + 1)]}
                b0 = [big, {"k": "wait", "s": 1}, {"k": "step", "val": "fin"}]
                b1 = [{"k": "step", "script": [{"do": "ok", "val": "busy", "gate": "busy"}]}]
                brs = [{"body": b0}, {"body": b1}]
                node = {"k": "par", "branches": brs, "cfg": {"preset": "all_completed"}} if kind == "par" else {"k": "map", "items": [0, 1], "per_item": brs, "body": [], "cfg": None}
                yield {"label": "summarised-context-passed-again-in-the-same-invocation|%s|%s" % (kind, inner), "prog": {"body": [node, {"k": "step", "val": "end"}]},
                       "prog_seed": 15900 + i, "pattern": {"p": "plain"}, "max_inv": 14, "world": {"complete": {}, "timers": "all"},
                       "holds": [{"match": {"kind": "gate", "name": "busy"}, "until": {"event": {"kind": "ret", "path": "0/b0/2"}}}],
                       "opts": {"idle_s": 0.8, "hang_s": 3.0}}
                i += 1


def explicit_all(tier, seed):
    yield from explicit(tier, seed)
    yield from more_cases(tier, seed)


SPEC = Spec(
    PROP,
    props=["C16"],
    level="exploration",
    explicit=explicit_all,
    quick={"plain": 0, "enum": 0, "rand": 0, "async": 0},
    thorough={"plain": 0, "enum": 0, "rand": 0, "async": 0},
    rule="result sizes limit-4 .. limit+50 and 2x limit for: a child context's own result (default config and custom summary generator), a "
    "single parallel/map branch's result, a batch result that exceeds the limit although every branch is within it (default config, "
    "explicit config, custom summary), an oversized batch containing a tolerated failed branch, an oversized batch that completed early (minimum reached, first successful, tolerance exceeded, with max_concurrency 1), a branch that is resumed in the same invocation after completing an oversized child context (timer, retry, condition), nested oversized contexts, a non-ASCII "
    "payload through a UTF-8 JSON serdes (characters within the limit, bytes over it; 2-, 3- and 4-byte characters), oversized batches recorded with a custom item serdes; each followed by waits and steps so the context is "
    "replayed in at least two later invocations, with enumerated crash points after the summary record on selected scenarios; and final "
    "results/errors from limit-4 to limit+1000 around the 6 MB response limit. Oracle: every CONTEXT SUCCEED payload <= 256 KB measured "
    "in encoded bytes; ReplayChildren set iff the result exceeded the limit; no update for a summarised context or its descendants "
    "afterwards; no completed step re-executed; the rebuilt value equals the first one; branches with large results are not recorded "
    "FAILED; oversized final result/error => empty payload with the full payload in an applied EXECUTION record. Non-trivial = context "
    "completions / replays / final outcomes judged.",
    deciding=lambda r: (r.get("stats") or {}).get("c16_events", 0) > 0,
    minima={"c16_events": 150},
)
cases = SPEC.cases
run_case = SPEC.run_case
if __name__ == "__main__":
    SPEC.main("checks.c16")
