#!/usr/bin/env python3
"""Regenerates /verif/MANIFEST.json from the table below (keeps it schema-valid at all times)."""
import json
import os

ROOT = os.path.dirname(os.path.dirname(os.path.abspath(__file__)))
TB = ("CPython 3.12; the harness under /verif/dw (backend simulator semantics of DESIGN.md 1.1, driver, interpreter, monitors); "
      "canon() for value equality; interleavings and crash points are sampled/enumerated as stated in the evidence file, not exhausted")

CHECKS = {
    "C01": ("fault_enumeration", "2 C01", "runtime monitoring: function-entry probes vs backend table over crash-point enumeration",
            "Held on the executions observed: every user-function entry was checked against the backend table at that instant; all single crash points of a small-program corpus are enumerated, larger programs are sampled (random multi-crash, async kill, pagination splits)."),
    "C02": ("fault_enumeration", "2 C02", "runtime monitoring: per-position delivery log across invocations + differential final outcome vs uninterrupted run",
            "Held on the executions observed (apart from listed known findings): deliveries per program position identical across invocations; final outcome equals the uninterrupted reference for every enumerated single crash point of the small-program corpus and for sampled multi-crash/async-kill runs."),
    "C03": ("exploration", "2 C03", "runtime monitoring: delivery events checked against the applied-update log in one total order",
            "Held on the executions observed: each ret/exc/PENDING was checked against the backend table at receipt; response latency, pagination and crash points vary the batch boundaries."),
    "C04": ("fault_enumeration", "2 C04", "runtime monitoring: step-function entry keyed by backend attempt counter under exhaustive single-crash enumeration",
            "Held on the executions observed: exhaustive single-crash-point enumeration over a hand-written at-most-once corpus (all strategy kinds x failure scripts x top-level/branch) plus random programs."),
    "C08": ("exploration", "2 C08", "runtime monitoring: path<->id bijection and metamorphic chain->id function over all updates",
            "Held on the executions observed: bijection and parent links on every update; ids a function of the position chain across all programs run."),
    "C11": ("fault_enumeration", "2 C11", "runtime monitoring: lifecycle automaton over the concatenated applied-update stream",
            "Held on the executions observed: automaton over every applied update of every invocation, with all single crash points of the small-program corpus."),
    "C12": ("fault_enumeration", "2 C12", "runtime monitoring: retry-strategy probe/RETRY records/entry counts + direct input-space check of strategy functions",
            "Held on the executions observed: retry corpus with crash points between attempts; packaged strategies checked against the exact backoff formula with pinned jitter."),
    "C13": ("fault_enumeration", "2 C13", "runtime monitoring: (state, attempt) per poll, decisions vs records + direct wait-strategy check",
            "Held on the executions observed: wait_for_condition corpus (states x decisions x serdes) with crash points between polls; packaged wait strategies checked directly."),
    "C05": ("exploration", "2 C05", "runtime monitoring: recorded hand-over history vs delivered API calls on a real ExecutionState (FIFO, exactly-once, limits, token chain, logical quiescence rule)",
            "Held on the trials observed: producers x sizes x batcher configurations x client latency x yield injection, plus a forced lost-wake-up interleaving; liveness restated as bounded release in a quiescent closed system."),
    "C15": ("exploration", "2 C15", "runtime monitoring of the public serialize/deserialize functions over a typed-grammar generator with a type-exact canonical-form oracle",
            "Held on the values generated (apart from the listed deep-nesting finding): 64k values per quick run over the stated grammar plus adversarial classes."),
    "C19": ("exploration", "2 C19", "runtime monitoring: arrival tickets recorded under the lock's own mutex vs grant order, exclusivity, break semantics, logical wedge rule, under yield injection",
            "Held on the histories observed: thousands of short multi-thread histories with LINE-level yield injection and exception injection."),
    "C20": ("exploration", "2 C20", "runtime monitoring of the public codec methods and factories over a model-instance generator with a normal form for the permitted losses",
            "Held on the instances generated: every type/status/sub-type/action, optional-field patterns, nested errors, timestamps incl. epoch 0."),
    "C06": ("fault_enumeration", "2 C06", "runtime monitoring: every position of the checkpoint-call sequence made the failing call; API calls, deliveries and outcome after the failure; logical hang/spin rules",
            "Held on the executions observed: exhaustive failing-call positions for seven program shapes (incl. branch threads, timer-thread refresh, large-result checkpoint) x error classes x lost side, plus random programs under yield injection."),
    "C14": ("exploration", "2 C14", "runtime monitoring: callback ids and result()/invoke() deliveries vs what the simulated external party delivered",
            "Held on the executions observed: every terminal status x payload kind x delivery timing x location, plus random programs and crash points."),
    "C17": ("fault_enumeration", "2 C17", "runtime monitoring: records received by a capturing LoggerInterface vs the program-position rule, over history prefixes and page splits",
            "Held on the executions observed apart from the listed known findings: sequential log-instrumented programs x enumerated crash points x page splits."),
    "C18": ("exploration", "2 C18", "runtime monitoring of the handler boundary: outcome shape/classification per scenario and thread liveness afterwards",
            "Held on the executions observed: behaviours x locations x exception classes x result kinds x malformed events x checkpoint error categories at every API call position."),
    "C09": ("exploration", "2 C09", "runtime monitoring: BatchResult vs per-branch ground truth and a reference completion policy, completion orders forced by conductor gates",
            "Held on the executions observed: item counts 0-8 x 13 completion configs x concurrency limits x per-branch behaviours x forced completion orders, with yield injection and a pause between the executor's state writes."),
    "C10": ("exploration", "2 C10", "runtime monitoring: applied-update stream after each context completion + function entries in orphaned branches, survivor position forced by conductor gates",
            "Held on the executions observed: early-completion configs x nesting depth x survivor position x next operation kind, plus the forced check-then-put order."),
    "C16": ("exploration", "2 C16", "runtime monitoring: payload sizes in encoded bytes, ReplayChildren flag, updates and function entries during replay, rebuilt value equality, response-limit handling",
            "Held on the executions observed apart from the listed known finding: sizes around both limits x context kinds x summary configs x replays and crash points."),
    "C07": ("exploration", "2 C07", "runtime monitoring: wake sources and active user functions at every PENDING outcome; bounded-progress rules (invocation bound, stuck-PENDING, logical hang rule, spin rule)",
            "Held on the executions observed: suspending operations at top level and in nested map/parallel, timer/event delivery orders, livelock hunt with due-now suspensions under yield injection; unbounded liveness is restated as bounded progress."),
}

NOT_YET = "check under construction in this session (machinery not yet registered)"


def main():
    props = [json.loads(l)["id"] for l in open(os.path.join(ROOT, "properties.jsonl"))]
    checks = []
    for p in props:
        if p not in CHECKS:
            continue
        level, ref, tech, text = CHECKS[p]
        checks.append({
            "property_id": p,
            "quick_cmd": "./check %s --tier quick" % p,
            "thorough_cmd": "./check %s --tier thorough" % p,
            "evidence_file": "/verif/evidence/%s.json" % p,
            "replay_cmd_template": "./check %s --replay {path}" % p,
            "engine": "durable-world",
            "level_claimed": {"category": level, "text": text, "design_ref": "DESIGN.md section " + ref},
            "level_note": TB,
            "technique": tech,
        })
    man = {
        "version": 1,
        "setup_cmd": "./setup.sh",
        "hooks": {
            "guard": "AWS_DURABLE_EXECUTION_SDK_PYTHON_VERIF",
            "enable": "no source hooks are needed: every probe, fake client and perturbation is installed from the harness process",
            "baseline_off_cmd": "cd /repo && /venv/bin/python -m pytest -ra -q -p no:cacheprovider --timeout=900 --continue-on-collection-errors",
            "source_commits": [],
            "add_only": True,
        },
        "engines": [{"name": "durable-world", "path": "/verif/dw", "serves_properties": sorted(CHECKS),
                     "kind_free_text": "fork-per-invocation driver + wire-format backend simulator + program interpreter with probes; offline monitors over a totally ordered event trace; crash/fault injection; conductor holds; sys.monitoring yield injection"}],
        "checks": checks,
        "not_applicable": [{"property_id": p, "reason": NOT_YET} for p in props if p not in CHECKS],
        "notes": "Exit codes: 0 held on what was observed, 1 violation (VIOLATION line), 2 inconclusive (deciding monitor under-observed or worker failure). Known findings: /verif/known_findings.json.",
    }
    with open(os.path.join(ROOT, "MANIFEST.json"), "w") as f:
        json.dump(man, f, indent=1)
    print("manifest: %d checks, %d not yet claimed" % (len(checks), len(man["not_applicable"])))


if __name__ == "__main__":
    main()
