#!/usr/bin/env python3
"""Confirm an independently written breaking change and run checks against it.

usage: seedeval.py <name> <patch.diff> <demo.py> <target property> [other properties...]
Works on a scratch worktree of /repo under /dev/shm (removed afterwards); never touches /repo's working tree.
Writes /verif/seeded/<name>/{patch.diff,demo.py,meta.json}."""
import json
import os
import re
import shutil
import subprocess
import sys
import time

ROOT = os.path.dirname(os.path.dirname(os.path.abspath(__file__)))
PY = "/venv/bin/python"


def sh(cmd, cwd=None, env=None, timeout=1800):
    p = subprocess.run(cmd, cwd=cwd, env=env, shell=isinstance(cmd, str), stdout=subprocess.PIPE, stderr=subprocess.STDOUT, timeout=timeout)
    return p.returncode, p.stdout.decode(errors="replace")


def main():
    name, patch, demo, target = sys.argv[1:5]
    others = sys.argv[5:]
    wt = "/dev/shm/seedeval/%s" % name
    shutil.rmtree(wt, ignore_errors=True)
    os.makedirs("/dev/shm/seedeval", exist_ok=True)
    sh(["git", "-C", "/repo", "worktree", "prune"])
    rc, out = sh(["git", "-C", "/repo", "worktree", "add", "--detach", wt, "HEAD"])
    meta = {"name": name, "breaks_property": target, "repo_head": sh(["git", "-C", "/repo", "rev-parse", "--short", "HEAD"])[1].strip()}
    try:
        env = dict(os.environ, PYTHONPATH=wt + "/src", PYTHONHASHSEED="0")
        demo_dst = os.path.join(wt, "seed_demo.py")
        shutil.copy(demo, demo_dst)
        txt = open(demo_dst).read()
        txt = re.sub(r"/tmp/seed/C\d\d", wt, txt)
        open(demo_dst, "w").write(txt)
        t0 = time.time()
        rc0, out0 = sh([PY, demo_dst], cwd=wt, env=env, timeout=300)
        meta["demo_without_change"] = {"exit": rc0, "tail": out0[-400:]}
        rc, out = sh(["git", "apply", os.path.abspath(patch)], cwd=wt)
        meta["patch_applies"] = rc == 0
        if rc != 0:
            meta["patch_error"] = out[-500:]
            return finish(meta, name, patch, demo)
        rc1, out1 = sh([PY, demo_dst], cwd=wt, env=env, timeout=300)
        meta["demo_with_change"] = {"exit": rc1, "tail": out1[-600:]}
        rct, outt = sh([PY, "-m", "pytest", "-q", "-p", "no:cacheprovider", "-n", "8", "tests"], cwd=wt, env=env, timeout=900)
        meta["suite_with_change"] = {"exit": rct, "tail": outt[-300:]}
        meta["confirmed"] = bool(rc0 == 0 and rc1 != 0 and rct == 0)
        results = {}
        evdir = "/dev/shm/seedeval/ev-%s" % name
        for prop in [target, *others]:
            cenv = dict(os.environ, PYTHONPATH="%s/src:%s:%s/.deps" % (wt, ROOT, ROOT), PYTHONHASHSEED="0", VERIF_EVIDENCE_DIR=evdir,
                        VERIF_REPLAY_DIR="/dev/shm/seedeval/rp-%s" % name)
            t1 = time.time()
            rcc, outc = sh([PY, "-m", "checks.%s" % prop.lower(), "--tier", "quick", "--seed", os.environ.get("VERIF_SEED", "0")], cwd=ROOT, env=cenv, timeout=1500)
            keys = sorted(set(re.findall(r"# (C\d\d/[^:]+):", outc)))
            results[prop] = {"exit": rcc, "violation_keys": keys[:12], "wall_s": round(time.time() - t1, 1),
                             "summary": outc.strip().splitlines()[-1][-300:] if outc.strip() else ""}
        meta["checks"] = results
        meta["caught_by"] = [p for p, r in results.items() if r["exit"] == 1]
        shutil.rmtree(evdir, ignore_errors=True)
        shutil.rmtree("/dev/shm/seedeval/rp-%s" % name, ignore_errors=True)
    finally:
        sh(["git", "-C", "/repo", "worktree", "remove", "--force", wt])
        shutil.rmtree(wt, ignore_errors=True)
    finish(meta, name, patch, demo)


def finish(meta, name, patch, demo):
    d = os.path.join(ROOT, "seeded", name)
    os.makedirs(d, exist_ok=True)
    shutil.copy(patch, os.path.join(d, "patch.diff"))
    shutil.copy(demo, os.path.join(d, "demo.py"))
    old = {}
    mp = os.path.join(d, "meta.json")
    if os.path.exists(mp):
        old = json.load(open(mp))
    old.update(meta)
    json.dump(old, open(mp, "w"), indent=1)
    print(json.dumps({k: meta.get(k) for k in ("name", "confirmed", "caught_by")}))
    for p, r in (meta.get("checks") or {}).items():
        print("  ", p, r["exit"], r["violation_keys"][:4], r["wall_s"])


if __name__ == "__main__":
    main()
