"""C03 world check (see DESIGN.md section 2, C03)."""
from checks.worldcheck import Spec, replayed_delivery

PROP = "C03"
ERR = {"kind": "client", "status": 500, "code": "ServiceException", "message": "boom"}
from checks.c18 import ERRS  # noqa: E402


def explicit(tier, seed):
    """Batch-boundary and failure shapes: records that cannot share a batch (overflow queue), slow backend, and a failing
    request that stays in flight while further blocking records queue up behind it."""
    import random

    rng = random.Random(seed)
    i = 0
    shapes = []
    for nb, size in ((2, 450), (3, 300), (3, 450), (4, 260)):
        brs = [{"body": [{"k": "step", "script": [{"do": "ok", "big": size * 1024}]}, {"k": "step", "val": b}], "result": "r%d" % b} for b in range(nb)]
        shapes.append(("par-big-%dx%d" % (nb, size), [{"k": "par", "branches": brs, "cfg": {"preset": "all_completed"}}, {"k": "step", "val": "end"}]))
    shapes.append(("seq-big", [{"k": "step", "script": [{"do": "ok", "big": 800 * 1024}]}, {"k": "step", "script": [{"do": "ok", "big": 760 * 1024}], "sem": "most"},
                               {"k": "step", "val": 1}]))
    shapes.append(("seq-small", [{"k": "step", "val": 1}, {"k": "step", "val": 2, "sem": "most"}, {"k": "wait", "s": 1}, {"k": "cb"}, {"k": "step", "val": 3}]))
    shapes.append(("par-small", [{"k": "par", "branches": [{"body": [{"k": "step", "val": b}, {"k": "step", "val": b + 10}]} for b in range(3)]},
                                 {"k": "wfc", "init": 0, "decisions": [("cont", 1), ("stop",)]}]))
    L = 256 * 1024
    shapes.append(("child-summarised", [{"k": "child", "body": [{"k": "step", "val": 1}], "result": {"big": L + 900}}, {"k": "step", "val": "after"},
                                        {"k": "par", "branches": [{"body": [{"k": "step", "val": 2}], "result": {"big": L + 50}}, {"body": [{"k": "step", "val": 3}]}],
                                         "cfg": {"preset": "all_completed"}}, {"k": "step", "val": "end"}]))
    shapes.append(("wfcb-and-map-summarised", [{"k": "map", "items": [0, 1], "body": [{"k": "step", "val": 1}], "result": {"big": L // 2 + 900}, "cfg": None},
                                               {"k": "try", "body": {"k": "wfcb"}, "catch": "*"}, {"k": "step", "val": "end"}]))
    # the workflow guards its external calls with `except Exception`: a checkpoint failure must not be catchable that way
    shapes.append(("guarded-calls", [{"k": "step", "val": 1}, {"k": "try", "body": {"k": "invoke", "fn": "f", "payload": 1, "cfg": {"timeout": 30}}, "catch": ["Exception"]},
                                     {"k": "try", "body": {"k": "step", "val": 2}, "catch": ["Exception"]}, {"k": "try", "body": {"k": "wait", "s": 1}, "catch": ["Exception"]},
                                     {"k": "try", "body": {"k": "cb"}, "catch": ["Exception"]}, {"k": "step", "val": "end"}]))
    reps = 2 if tier == "quick" else 12
    for name, body in shapes:
        for r in range(reps):
            yield {"label": "boundary-" + name, "prog": {"body": body}, "prog_seed": 23000 + i, "pattern": {"p": "plain"},
                   "latency_ms": rng.choice([(0, 3), (5, 15), (10, 40)]), "max_inv": 20}
            i += 1
        for k in range(1, 7 if tier == "quick" else 12):
            for delay in (0, 25):
                yield {"label": "fault-" + name, "prog": {"body": body}, "prog_seed": 23000 + i, "pattern": {"p": "plain"}, "max_inv": 20,
                       "faults": [{"match": {"op": "checkpoint", "n": k}, "err": ERR if delay else ERRS[(k + i) % len(ERRS)],
                                   "when": rng.choice(["before", "before", "after"]), "delay_ms": delay}],
                       "opts": {"hang_s": 3.0}}
                i += 1
            # the same failure while the thread that signals (sets an event, puts on a queue, releases a lock) loses the CPU right after
            # doing so: a waiter woken by the flag must still see the failure that goes with it
            for rep in range(1 if tier == "quick" else 3):
                yield {"label": "fault-after-sync-" + name, "prog": {"body": body}, "prog_seed": 23000 + i, "pattern": {"p": "plain"}, "max_inv": 20,
                       "faults": [{"match": {"op": "checkpoint", "n": k}, "err": ERR, "when": "before"}],
                       "opts": {"hang_s": 3.0, "perturb": {"p": 0.0, "seed": i, "files": ["threading.py", "state.py", "executor.py"],
                                                           "after_sync": {"p": 0.8, "sleep": 0.003}}}}
                i += 1


def user_thread_cases(tier, seed):
    """Two user threads share a context; one of them is slow between the statements of the hand-over to the checkpoint pipeline
    (10 ms per statement), so its records fall into later API calls than those of the thread that started after it; one of those
    calls stays in flight for 0.4 s and is then refused. No bookkeeping shortcut may tell the slow thread that its record is in."""
    i = 0
    for T, N in ((2, 2), (2, 3), (3, 2)):
        for k in range(2, 9 if tier == "quick" else 14):
            for slow in (0.004, 0.012):
                if tier == "quick" and (k + T + N + int(slow * 1000)) % 2:
                    continue
                yield {"label": "user-threads-one-slow", "prog": {"body": [{"k": "step", "val": 0}, {"k": "uthreads", "threads": T, "n": N, "op": "step"}, {"k": "step", "val": "after"}]},
                       "prog_seed": 23700 + i, "pattern": {"p": "plain"}, "max_inv": 1,
                       "faults": [{"match": {"op": "checkpoint", "n": k}, "err": ERR, "when": "before", "delay_ms": 400}],
                       "opts": {"hang_s": 4.0, "perturb": {"p": 0.0, "seed": i, "files": ["state.py"], "slow_thread": {"re": r"^ut-0$", "sleep": slow}}}}
                i += 1


def user_thread_prelock_cases(tier, seed):
    """As above, but the slow user thread loses the CPU for 60-90 ms right before every lock acquisition inside the SDK's state module
    (between two critical sections of one create_checkpoint call), long enough for the other thread's records to be sent and accepted
    in between; the call that then carries the slow thread's record stays in flight for 0.4 s and is refused."""
    i = 0
    for T, N in ((2, 10), (3, 8)):
        for k in range(3, 17 if tier == "quick" else 24):
            for sl in ((0.06,) if tier == "quick" else (0.04, 0.06, 0.09)):
                yield {"label": "user-threads-one-preempted-before-locks", "prog_seed": 23800 + i, "pattern": {"p": "plain"}, "max_inv": 1, "latency_ms": (50, 70),
                       "prog": {"body": [{"k": "step", "val": 0}, {"k": "uthreads", "threads": T, "n": N, "op": "step"}, {"k": "step", "val": "after"}]},
                       "faults": [{"match": {"op": "checkpoint", "n": k}, "err": ERR, "when": "before", "delay_ms": 400}],
                       "opts": {"hang_s": 5.0, "perturb": {"p": 0.0, "seed": i, "files": ["state.py"], "before_lock": {"thread_re": r"^ut-0$", "sleep": sl}}}}
                i += 1


def after_return_cases(tier, seed):
    """A branch abandoned by an early-completing map/parallel is still inside a step function when the handler returns, and goes on
    afterwards in the same (warm) process: whatever it does then, no durable call may hand it a result the backend never accepted."""
    i = 0
    for kind in ("par", "map"):
        for cfg in ({"min_ok": 1}, {"preset": "first_successful"}, {"tol_n": 0}):
            for nxt in ("step", "step-most", "child", "wait", "wfc"):
                fast = [{"k": "step", "val": "fast"}] if "tol_n" not in cfg else \
                    [{"k": "step", "script": [{"do": "fail", "cls": "ValueError", "msg": "x"}], "retry": {"kind": "preset", "name": "none"}}]
                n2 = {"step": {"k": "step", "val": "s2"}, "step-most": {"k": "step", "val": "s2", "sem": "most"}, "child": {"k": "child", "body": [{"k": "step", "val": "in"}]},
                      "wait": {"k": "wait", "s": 1}, "wfc": {"k": "wfc", "init": 0, "decisions": [("stop",)]}}[nxt]
                slow = [{"k": "step", "script": [{"do": "ok", "val": "s1", "gate": "surv"}]}, n2, {"k": "step", "val": "s3"}]
                brs = [{"body": fast}, {"body": slow}]
                node = {"k": "par", "branches": brs, "cfg": cfg} if kind == "par" else {"k": "map", "items": [0, 1], "per_item": brs, "body": [], "cfg": cfg}
                yield {"label": "abandoned-branch-continues-after-return", "prog": {"body": [{"k": "try", "body": node, "catch": "*"}, {"k": "step", "val": "end"}]},
                       "prog_seed": 23800 + i, "pattern": {"p": "plain"}, "max_inv": 4,
                       "holds": [{"match": {"kind": "gate", "name": "surv"}, "until": {"event": {"kind": "returned"}}, "delay_ms": 5}],
                       "opts": {"linger_s": 0.4, "idle_s": 1.0, "hang_s": 3.0}}
                i += 1


def repeated_record_cases(tier, seed):
    """The same kind of record for the same operation more than once within ONE invocation (a step / condition in a branch retrying
    twice while a sibling keeps the invocation alive): each of them has to be accepted before the branch parks on it, and the
    invocation may report PENDING only with the last one accepted."""
    i = 0
    for kind in ("par", "map"):
        for what in ("step", "wfc"):
            for nrep in (2, 3):
                if what == "step":
                    op = {"k": "step", "script": [{"do": "fail", "cls": "ValueError", "msg": "f%d" % k} for k in range(nrep)] + [{"do": "ok", "val": 7}],
                          "retry": {"decisions": [("retry", 1)] * nrep + [("stop",)]}}
                else:
                    op = {"k": "wfc", "init": 0, "decisions": [("cont", 1)] * nrep + [("stop",)]}
                b0 = {"body": [op, {"k": "step", "val": "next"}]}
                b1 = {"body": [{"k": "step", "script": [{"do": "ok", "val": "busy", "gate": "busy"}]}]}
                node = {"k": "par", "branches": [b0, b1], "cfg": {"preset": "all_completed"}} if kind == "par" else {"k": "map", "items": [0, 1], "per_item": [b0, b1], "body": [], "cfg": None}
                # the sibling leaves once the branch has parked for the nrep-th time: the invocation then reports PENDING on that last record
                yield {"label": "repeated-retry-records-in-one-invocation|%s|%s" % (kind, what), "prog": {"body": [node, {"k": "step", "val": "end"}]}, "prog_seed": 23900 + i,
                       "pattern": {"p": "plain"}, "max_inv": 12, "world": {"complete": {}, "timers": "all"},
                       "holds": [{"match": {"kind": "gate", "name": "busy"}, "until": {"event": {"kind": "susp", "path": "0/b0/0", "count": nrep}}, "delay_ms": 2}],
                       "opts": {"idle_s": 1.0, "hang_s": 3.0}}
                i += 1


def explicit_all(tier, seed):
    yield from explicit(tier, seed)
    # records of a branch that are QUEUED when its block completes early (large, slow to send): a call whose record was never sent must not
    # return as if it had been (scenarios shared with C10)
    from checks.c10 import inflight_cases

    for c in inflight_cases(tier, seed):
        yield dict(c, label="c03-" + c["label"])
    yield from after_return_cases(tier, seed)
    yield from repeated_record_cases(tier, seed)
    yield from user_thread_cases(tier, seed)
    yield from user_thread_prelock_cases(tier, seed)


SPEC = Spec(
    PROP,
    level="exploration",
    rule="random programs (all nine operation kinds, nesting<=3) x {uninterrupted with random pagination/latency, every single "
    "crash point of a small-program corpus, random multi-crash, asynchronous SIGKILL, yield injection}; every ret/exc delivered to user code and every PENDING outcome is checked, at the instant the single-threaded parent receives it, against the backend table (terminal record / armed wake source / EXECUTION record). Non-trivial = at least one delivery was checked. "
    "Additional hand-written shapes: parallel steps whose 260-450 KB results cannot share a 750 KB batch (overflow queue) under 0-40 ms "
    "backend latency, 800 KB sequential steps, child contexts / map / parallel whose result is recorded as a summary, and a failing checkpoint request (answered at once or left in flight 25 ms while "
    "further blocking records queue up) at every call position, also under after-sync perturbation (the signalling thread is descheduled right after Event.set / Queue.put / lock release). A branch abandoned by an early-completing map/parallel, held inside its step function until the handler has returned and then released in the lingering process (warm sandbox), followed by each kind of next operation. A class = (program shape hash, interruption pattern, event kind at "
    "which the crash landed).",
    deciding=lambda r: True,
    explicit=explicit_all,
)
cases = SPEC.cases
run_case = SPEC.run_case
if __name__ == "__main__":
    SPEC.main("checks.c03")
