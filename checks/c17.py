"""C17 - context logger is silent while replaying completed work, audible afterwards."""
import random

from checks.worldcheck import Spec

PROP = "C17"


def seq_program(rng, n_units):
    """Sequential program with a log call before/after every unit."""
    body = []
    t = 0

    def log():
        nonlocal t
        t += 1
        return {"k": "log", "tag": "L%d" % t, "level": rng.choice(["info", "info", "info", "debug", "warning", "error", "exception"])}

    for _ in range(n_units):
        body.append(log())
        k = rng.choice(["step", "steplog", "wait", "fstep", "child", "cb", "wfcb", "par", "map", "wfc", "invoke", "rsteplog", "rsteplog", "parwait", "parwait", "parmixed", "parmixed"])
        if k == "step":
            body.append({"k": "step", "val": rng.randrange(9)})
        elif k == "steplog":
            body.append({"k": "step", "val": rng.randrange(9), "log": True})
        elif k == "wait":
            body.append({"k": "wait", "s": 1})
        elif k == "rsteplog":  # fails once, retried after a timer: the second attempt (and its log call) is new work of a later invocation
            body.append({"k": "step", "script": [{"do": "fail", "cls": "ValueError", "msg": "once"}, {"do": "ok", "val": 5}], "log": True,
                         "retry": {"decisions": [("retry", 1), ("stop",)]}})
        elif k == "parwait":  # block that suspends inside: its branches are replayed concurrently when the execution resumes
            nb = rng.randrange(2, 7)
            body.append({"k": "par", "branches": [{"body": [{"k": "step", "val": b}, {"k": "step", "val": b + 10}, {"k": "wait", "s": 1}, {"k": "step", "val": b + 20}]}
                                                  for b in range(nb)], "cfg": {"preset": "all_completed"}})
        elif k == "parmixed":  # the block suspends with some branches finished and others still pending
            nb = rng.randrange(2, 5)
            brs = [{"body": [{"k": "step", "val": b}]} if b % 2 == 0 else {"body": [{"k": "wait", "s": 1 + b}, {"k": "step", "val": b, "log": True}]} for b in range(nb)]
            body.append({"k": rng.choice(["par", "map"]), "branches": brs, "cfg": {"preset": "all_completed"}})
            if body[-1]["k"] == "map":
                body[-1] = {"k": "map", "items": list(range(nb)), "per_item": brs, "body": [], "cfg": None}
        elif k == "fstep":
            body.append({"k": "try", "catch": "*", "body": {"k": "step", "script": [{"do": "fail", "cls": "ValueError", "msg": "x"}],
                                                                "retry": {"kind": "preset", "name": "none"}}})
        elif k == "child":
            inner = [{"k": "log", "tag": "C%d" % t}, {"k": "step", "val": 1, "log": True}, {"k": "log", "tag": "D%d" % t}]
            if rng.random() < 0.4:
                inner.insert(2, {"k": "wait", "s": 1})
            body.append({"k": "child", "body": inner})
        elif k == "cb":
            body.append({"k": "cb", "between": []})
        elif k == "wfcb":
            body.append({"k": "wfcb"})
        elif k == "par":
            body.append({"k": "par", "branches": [{"body": [{"k": "step", "val": 1}]}, {"body": [{"k": "step", "val": 2}]}]})
        elif k == "map":
            body.append({"k": "map", "items": [1, 2], "body": [{"k": "step", "val": 3}]})
        elif k == "wfc":
            body.append({"k": "wfc", "init": 0, "decisions": [("cont", 1), ("stop",)]})
        elif k == "invoke":
            body.append({"k": "invoke", "fn": "f", "payload": 1})
    body.append(log())
    return {"body": body, "logger": True}


def explicit(tier, seed):
    rng = random.Random(seed * 7 + 1)
    n = 70 if tier == "quick" else 900
    for i in range(n):
        prog = seq_program(rng, rng.randrange(2, 6))
        pages = rng.choice([{}, {}, {"first_page": 1, "page_size": 1}, {"first_page": 1, "page_size": 100}, {"first_page": 2, "page_size": 2},
                            {"first_page": 3, "page_size": 1}, {"first_page": 0, "page_size": 3}, {"first_page": rng.randrange(1, 8), "page_size": rng.randrange(1, 5)},
                            {"resp_page": 1}, {"resp_page": 2, "first_page": 1, "page_size": 2}, {"resp_page": 1}])
        pat = {"p": "crash_enum", "max_points": 14} if i % 4 == 0 else {"p": "plain"}
        c = {"label": "seq-logs", "prog": prog, "prog_seed": 11000 + i + seed * 1000, "pages": pages, "pattern": pat}
        if i % 2:
            # the history handed to an invocation leaves out the descendants of completed contexts (their outcome is on the context's record)
            from dw.program import default_world

            c["label"] = "seq-logs-pruned-history"
            c["world"] = dict(default_world(prog, random.Random(11000 + i)), prune_completed=True)
        if i % 3 == 1:
            c["opts"] = {"perturb": {"p": 0.05, "seed": i, "files": ["state.py", "context.py", "logger.py"]}}
        elif i % 3 == 2:
            c["opts"] = {"warm": True}  # every invocation of the execution is served by the same process (and the same logger object)
        yield c


def explicit_all(tier, seed):
    yield from explicit(tier, seed)
    # many branches replaying their completed operations at the same time, under dense yield injection in the replay-tracking code:
    # whatever the interleaving, the log call after the block must come out once the block has been passed
    rng = random.Random(seed * 13 + 5)
    for j in range(14 if tier == "quick" else 160):
        nb = rng.choice([6, 8, 12, 16])
        par = {"k": "par", "branches": [{"body": [{"k": "step", "val": b}, {"k": "step", "val": b + 100}, {"k": "wait", "s": 1}, {"k": "step", "val": b + 200}]} for b in range(nb)],
               "cfg": {"preset": "all_completed"}}
        prog = {"body": [{"k": "log", "tag": "L1"}, {"k": "step", "val": 0}, par, {"k": "log", "tag": "L2"}, {"k": "step", "val": 1, "log": True}, {"k": "log", "tag": "L3"}], "logger": True}
        yield {"label": "concurrent-replay", "prog": prog, "prog_seed": 11900 + j + seed * 1000, "pattern": {"p": "plain"},
               "opts": {"perturb": {"p": rng.choice([0.1, 0.25, 0.5]), "sleep_p": 0.3, "max_sleep": 0.001, "seed": j, "files": ["state.py"]}}}


def pending_span_cases(tier, seed):
    """A non-terminal operation that program order visits BEFORE completed ones: a callback created first and awaited last, with
    logged steps and waits in between, still outstanding while the execution is resumed several times by the timers."""
    rng = random.Random(seed * 17 + 3)
    for j in range(12 if tier == "quick" else 120):
        t = [0]

        def log():
            t[0] += 1
            return {"k": "log", "tag": "L%d" % t[0]}

        between = [log()]
        for _ in range(rng.randrange(2, 5)):
            between += [rng.choice([{"k": "step", "val": 1}, {"k": "step", "val": 2, "log": True}]), log(), {"k": "wait", "s": 1}, log()]
        pre = [log(), {"k": "step", "val": 0}] if j % 2 else []
        nb = len(pre)
        body = pre + [{"k": "cb", "between": between}, log(), {"k": "step", "val": 9, "log": True}, log()]
        if j % 3 == 2:  # a second outstanding operation of another kind, started before the completed ones
            body = [{"k": "par", "branches": [{"body": body}, {"body": [{"k": "cb"}]}], "cfg": {"preset": "all_completed"}}]
            cbp, other = "0/b0/%d" % nb, "0/b1/0"
        else:
            cbp, other = str(nb), None
        world = {"complete": {cbp: {"when": "after_pendings", "n": rng.choice([3, 5, 9]), "status": "SUCCEEDED", "result": '"late"'}}, "timers": "all"}
        if other:
            world["complete"][other] = {"when": "after_pendings", "n": 12, "status": "SUCCEEDED", "result": '"later"'}
        yield {"label": "outstanding-op-before-completed-ones", "prog": {"body": body, "logger": True}, "prog_seed": 11700 + j + seed * 1000, "world": world,
               "pattern": {"p": "crash_enum", "max_points": 10} if j % 4 == 0 else {"p": "plain"},
               "pages": rng.choice([{}, {"first_page": 1, "page_size": 2}, {"first_page": 0, "page_size": 3}]), "max_inv": 30}


def explicit_all2(tier, seed):
    yield from explicit_all(tier, seed)
    yield from pending_span_cases(tier, seed)


SPEC = Spec(
    PROP,
    level="fault_enumeration",
    explicit=explicit_all2,
    quick={"plain": 0, "enum": 0, "rand": 0, "async": 0},
    thorough={"plain": 0, "enum": 0, "rand": 0, "async": 0},
    rule="sequential programs with a log call before/after every unit (steps, steps that log inside, waits, caught failing steps, child "
    "contexts with inner logs/steps/waits, callbacks, wait_for_callback, wait_for_condition, invoke, map/parallel as units) x every "
    "prefix of completed operations that the forced suspensions and enumerated crash points leave behind x splits of the history "
    "between the event payload and later pages; plus programs in which an operation that is still outstanding (a callback created first and awaited last) precedes the completed ones in program order, resumed several times (first page holding 0,1,2,3.. operations, page sizes 1-100), and paginated checkpoint RESPONSES (1-2 operations per page) in the middle of new work. A third of the runs are served by one warm process; in half of them the history handed to an invocation omits the descendants of completed contexts. A capturing LoggerInterface "
    "installed with set_logger tags records with the invocation. Oracle: a log call at program position p in an invocation whose "
    "history contains a completed operation after p must be silent, every other call must be emitted (all of them in a first "
    "invocation), and emitted records carry executionArn plus parentId / operationId / operationName / attempt of the enclosing "
    "operation. Non-trivial = log calls judged in a resumed invocation.",
    deciding=lambda r: (r.get("stats") or {}).get("c17_logcalls", 0) > 0 and len(r["invocations"]) > 1,
    minima={"c17_logcalls": 1000},
)
cases = SPEC.cases
run_case = SPEC.run_case
if __name__ == "__main__":
    SPEC.main("checks.c17")
