"""C12 - step retries: attempts counted exactly, bounded, durably scheduled; packaged strategies within bounds."""
import copy
import random

from checks.direct_strategies import run_retry_direct
from checks.worldcheck import Spec

PROP = "C12"


def explicit(tier, seed):
    n = 4 if tier == "quick" else 40
    for i in range(n):
        yield {"label": "direct-strategy", "direct": "retry", "direct_seed": seed * 1000 + i, "n": 60 if tier == "quick" else 200}
        yield {"label": "direct-strategy-concurrent", "direct": "retry-concurrent", "direct_seed": seed * 1000 + 500 + i, "n": 40 if tier == "quick" else 150}
    rng = random.Random(seed)
    i = 0
    specs = [
        {"kind": "preset", "name": "none"}, {"kind": "preset", "name": "transient"}, {"kind": "preset", "name": "critical"},
        {"kind": "config", "cfg": {"max_attempts": 4, "initial_delay": 1, "max_delay": 3, "jitter": "FULL"}},
        {"kind": "config", "cfg": {"max_attempts": 2, "initial_delay": 0, "max_delay": 0, "jitter": "NONE"}},
        {"kind": "config", "cfg": {"max_attempts": 5, "initial_delay": 2, "max_delay": 10, "jitter": "HALF", "types": ["ValueError"]}},
        {"decisions": [("retry", 0), ("retry", 1), ("retry", 5), ("stop",)]},
        None,
    ]
    for spec in specs:
        for fails in (0, 1, 2, 3, 99):
            script = [{"do": "fail", "cls": "ValueError", "msg": "f%d" % j} for j in range(min(fails, 12))]
            if fails < 99:
                script.append({"do": "ok", "val": fails})
            step = {"k": "step", "script": script, "retry": spec, "sem": rng.choice(["least", "most"])}
            for shape in ("top", "branch"):
                body = [{"k": "try", "body": step, "catch": "*"}, {"k": "step", "val": "after"}]
                if shape == "branch":
                    body = [{"k": "map", "items": [1, 2], "body": body, "cfg": {"max_conc": 2, "preset": "all_completed"}}]
                pat = {"p": "crash_enum", "max_points": 25} if (i % 3 == 0 and fails < 99 or tier != "quick") else {"p": "plain"}
                if spec is None and fails == 99:
                    pat = {"p": "plain"}
                yield {"label": "retry-corpus-" + shape, "prog": {"body": body}, "prog_seed": 5000 + i, "pattern": pat, "max_inv": 80}
                i += 1


def more_cases(tier, seed):
    """(a) step functions failing with the SDK's own error classes (a step wrapping an SDK call may well let such an error escape): the
    strategy decides about them like about any other error; (b) a step inside a child context (nested twice, in a branch) exhausts its
    retries, the workflow catches the error INSIDE the context and goes on, later invocations replay the context."""
    i = 0
    # (CallbackError and the other ExecutionError subclasses are fatal by design: the step executor re-raises them without asking the strategy)
    for cls in ("InvocationError", "SerDesError", "ValidationError", "DurableExecutionsError", "StepInterruptedError"):
        for fails in (2, 99):
            script = [{"do": "fail", "cls": cls, "msg": "f%d" % j} for j in range(min(fails, 3))]
            if fails < 99:
                script.append({"do": "ok", "val": 1})
            step = {"k": "step", "script": script, "retry": {"decisions": [("retry", 1), ("retry", 2), ("stop",)]}}
            yield {"label": "retry-sdk-error-class", "prog": {"body": [{"k": "try", "body": step, "catch": "*"}, {"k": "step", "val": "after"}]}, "prog_seed": 5500 + i,
                   "pattern": {"p": "plain"}, "max_inv": 20, "max_raises": 3}
            i += 1
    failing = {"k": "step", "script": [{"do": "fail", "cls": "ValueError", "msg": "always"}], "retry": {"decisions": [("retry", 1), ("stop",)]}}
    for depth in (1, 2):
        for wrap in ("top", "branch"):
            inner = [{"k": "step", "val": 0}, {"k": "try", "body": copy.deepcopy(failing), "catch": "*"}, {"k": "step", "val": "handled"}, {"k": "wait", "s": 1}, {"k": "step", "val": "later"}]
            for _ in range(depth):
                inner = [{"k": "child", "body": inner}]
            body = inner + [{"k": "wait", "s": 1}, {"k": "step", "val": "end"}]
            if wrap == "branch":
                body = [{"k": "par", "branches": [{"body": body}, {"body": [{"k": "step", "val": 1}]}], "cfg": {"preset": "all_completed"}}]
            yield {"label": "declined-step-caught-inside-context", "prog": {"body": body}, "prog_seed": 5550 + i,
                   "pattern": {"p": "crash_enum", "max_points": 12} if i % 2 else {"p": "plain"}, "max_inv": 30}
            i += 1


def explicit_all(tier, seed):
    yield from explicit(tier, seed)
    yield from more_cases(tier, seed)


SPEC = Spec(
    PROP,
    level="fault_enumeration",
    gen={"kinds": ["step", "rstep", "rstep", "rstep", "fstep", "wait", "par", "map", "wfcb"]},
    explicit=explicit_all,
    direct=run_retry_direct,
    quick={"plain": 40, "enum": 6, "rand": 20, "async": 10},
    thorough={"plain": 300, "enum": 80, "rand": 300, "async": 150, "perturb": 60},
    rule="(a) world runs: failing steps (fail-k-then-succeed / always fail / non-retryable type) x strategies (presets, packaged "
    "configs, scripted, SDK default) at top level and inside map branches x crash points between attempts: the strategy probe must "
    "be consulted with backend-recorded retries + 1, every RETRY carries delay >= 1, recorded retries <= max_attempts - 1, no "
    "function entry while the step is PENDING, and crash-free runs enter the function exactly min(failures+1, max_attempts) times; "
    "(b) direct: create_retry_strategy and every preset over generated configs (max_attempts 1-20, delays 0-600, rates 1-4, all "
    "jitters, message/regex/type filters) with random.random pinned to 0, 1-eps and seeded values: decision and exact delay formula "
    "within [1, max(1,max_delay)]. Non-trivial = a strategy was consulted / a RETRY was recorded.",
    deciding=lambda r: (r.get("stats") or {}).get("c12_events", 0) > 0,
    minima={"c12_events": 200, "direct_strategy_evaluations": 5000},
)
cases = SPEC.cases
run_case = SPEC.run_case
if __name__ == "__main__":
    SPEC.main("checks.c12")
