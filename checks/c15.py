"""C15 - default serialization round-trips every accepted value exactly (input-space monitor on the public functions)."""
from __future__ import annotations

import datetime as _dt
import random
import sys
import uuid
from decimal import Decimal

from dw import harness
from dw.canon import canon
from dw.monitors import V

PROP = "C15"
DEFAULT_LIMIT = sys.getrecursionlimit()
sys.setrecursionlimit(20000)


def gen(rng: random.Random, depth=0, maxd=5, adversarial=True):  # noqa: C901, PLR0911, PLR0912
    r = rng.random()
    if depth >= maxd or r < 0.5:
        c = rng.randrange(16)
        if c == 0:
            return None
        if c == 1:
            return rng.random() < 0.5
        if c == 2:
            return rng.choice([0, 1, -1, 255, 2**31, 2**63, -(2**63) - 1, 10**30, -(10**4299), 10**4200 + 7, rng.randrange(-10**6, 10**6)])
        if c == 3:
            return rng.choice([0.0, -0.0, 1.5, -2.25, 1e-320, 1.7976931348623157e308, float("inf"), float("-inf"), float("nan"),
                               rng.uniform(-1e6, 1e6), rng.random() * 10 ** rng.randrange(-300, 300), 0.1 + 0.2, 1 / 3])
        if c == 4:
            return rng.choice(["", "a", "t", "v", "héllo wörld", "\x00\x01", "line\nbreak", "\ud800", "a\udfffb", "😀", "\\u0041", '"quoted"',
                               "x" * rng.randrange(0, 200), "".join(chr(rng.randrange(1, 0x2FFF)) for _ in range(rng.randrange(0, 12)))])
        if c == 5:
            return bytes(rng.randrange(256) for _ in range(rng.randrange(0, 40)))
        if c == 6:
            return uuid.UUID(int=rng.getrandbits(128))
        if c == 7:
            return rng.choice([Decimal("0"), Decimal("-0"), Decimal("1.10"), Decimal("1E+400"), Decimal("NaN"), Decimal("-sNaN123"),
                               Decimal("Infinity"), Decimal("-Infinity"), Decimal(str(rng.uniform(-1e9, 1e9))), Decimal("0.%s1" % ("0" * rng.randrange(0, 40))),
                               Decimal("%s%s.%sE%d" % (rng.choice(["", "-"]), "".join(rng.choice("0123456789") for _ in range(rng.randrange(1, 60))),
                                                       "".join(rng.choice("0123456789") for _ in range(rng.randrange(0, 40))), rng.randrange(-500, 500))),
                               Decimal("NaN%d" % rng.randrange(10 ** 30, 10 ** 31))])
        if c == 8:
            tz = rng.choice([None, _dt.timezone.utc, _dt.timezone(_dt.timedelta(hours=5, minutes=30)), _dt.timezone(_dt.timedelta(hours=-11)),
                             _dt.timezone(_dt.timedelta(seconds=rng.randrange(-86399, 86399))),
                             _dt.timezone(_dt.timedelta(hours=1), "CET")])
            return _dt.datetime(rng.choice([1, 1970, 2024, 9999]), rng.randrange(1, 13), rng.randrange(1, 29), rng.randrange(24), rng.randrange(60),
                                rng.randrange(60), rng.choice([0, 1, 999999, rng.randrange(1000000)]), tzinfo=tz)
        if c == 9:
            return _dt.date(rng.choice([1, 1970, 2024, 9999]), rng.randrange(1, 13), rng.randrange(1, 29))
        if c == 10 and adversarial:  # envelope look-alikes
            return rng.choice([
                {"t": "i", "v": 5}, {"t": "s", "v": 1}, {"t": "zz", "v": 1}, {"t": "l", "v": [1, 2]}, {"t": "m", "v": {"a": 1}},
                {"t": "t", "v": [1]}, {"t": "n", "v": None}, {"t": 1, "v": 2}, {"t": "br", "v": {"all": [], "completionReason": "ALL_COMPLETED"}},
                {"t": "d", "v": "1.5"}, {"t": "B", "v": "AAAA"}, {"t": "i"}, {"v": 1}, {"t": "dt", "v": "2024-01-01T00:00:00"},
                [{"t": "i", "v": 5}], {"x": {"t": "f", "v": "1.5"}}, {"t": None, "v": None}, {"t": "i", "v": "12"}, {"t": "b", "v": 0},
            ])
        if c == 11:
            return rng.choice([[], (), {}, [[]], ((),), {"a": {}}, [()], ([],)])
        if c == 12:
            return rng.choice([True, 1, 1.0, False, 0, 0.0])  # bool/int/float distinctions
        if c == 13 and adversarial:  # dicts with non-string keys
            k = rng.choice([1, 0, True, None, 1.5, b"k", (1, 2), uuid.UUID(int=5), _dt.date(2020, 1, 1), Decimal("1")])
            d = {k: gen(rng, depth + 1, maxd, adversarial)}
            if rng.random() < 0.5:
                d[str(k) if not isinstance(k, bytes) else "k"] = "collides?"
            if rng.random() < 0.3:
                d[1] = "one"
                d["1"] = "string one"
            return d
        if c == 14:
            return _batch_result(rng, depth, maxd)
        return rng.randrange(100)
    c = rng.randrange(4)
    n = rng.randrange(0, 5)
    if c == 0:
        return [gen(rng, depth + 1, maxd, adversarial) for _ in range(n)]
    if c == 1:
        return tuple(gen(rng, depth + 1, maxd, adversarial) for _ in range(n))
    if c == 2:
        return {rng.choice(["a", "b", "t", "v", "", "k%d" % i, "ключ", "\ud800"]): gen(rng, depth + 1, maxd, adversarial) for i in range(n)}
    return [gen(rng, depth + 1, maxd, False) for _ in range(n)] if rng.random() < 0.5 else _batch_result(rng, depth, maxd)


def _batch_result(rng, depth, maxd):
    from aws_durable_execution_sdk_python.concurrency.models import BatchItem, BatchItemStatus, BatchResult, CompletionReason
    from aws_durable_execution_sdk_python.lambda_service import ErrorObject

    items = []
    for i in range(rng.randrange(0, 4)):
        st = rng.choice(list(BatchItemStatus))
        err = None
        res = None
        if st is BatchItemStatus.FAILED:
            err = ErrorObject(message=rng.choice(["m", None, ""]), type=rng.choice(["T", "ValueError"]), data=rng.choice([None, "d"]),
                              stack_trace=rng.choice([None, ["a", "b"], []]))
        elif st is BatchItemStatus.SUCCEEDED:
            res = gen(rng, depth + 2, maxd, rng.random() < 0.3)  # sometimes adversarial (non-string keys, look-alikes) below a batch item
        items.append(BatchItem(i, st, res, err))
    return BatchResult(items, rng.choice(list(CompletionReason)))


def first_diff(a, b, path="$"):
    """Mechanism-level description of the first difference between original a and round-tripped b."""
    ta, tb = type(a), type(b)
    if ta is not tb:
        return "%s-became-%s" % (ta.__name__, tb.__name__)
    if ta in (list, tuple):
        if len(a) != len(b):
            return "%s-length-changed" % ta.__name__
        for x, y in zip(a, b):
            d = first_diff(x, y)
            if d:
                return d
        return None
    if ta is dict:
        ka, kb = list(a.keys()), list(b.keys())
        if len(ka) != len(kb):
            nonstr = sorted({type(k).__name__ for k in ka if not isinstance(k, str)})
            return "dict-keys-lost" + ("/non-string-key-%s" % "+".join(nonstr) if nonstr else "")
        for k in ka:
            if k not in b or type(k) is not type(next(kk for kk in kb if kk == k)):
                return "dict-key-%s-coerced" % type(k).__name__
            d = first_diff(a[k], b[k])
            if d:
                return d
        return None
    if ta.__name__ == "BatchResult":
        if canon(a) != canon(b):
            for x, y in zip(a.all, b.all):
                if canon(x) != canon(y):
                    d = first_diff(x.result, y.result)
                    if d:
                        return "batch-item-result/" + d
                    return "batch-item-error-or-status-changed"
            return "batch-result-changed"
        return None
    if canon(a) != canon(b):
        return "%s-value-changed" % ta.__name__
    return None


def check_value(v, origin):
    from aws_durable_execution_sdk_python.exceptions import ExecutionError
    from aws_durable_execution_sdk_python.serdes import deserialize, serialize

    sys.setrecursionlimit(20000)  # the oracle gets a deep stack; the SDK calls below run under the interpreter's default limit
    try:
        c0 = canon(v)
    except RecursionError:
        return None, "skipped"
    # the SDK functions run under CPython's default recursion limit; only the oracle gets a deeper stack
    sys.setrecursionlimit(DEFAULT_LIMIT)
    try:
        try:
            s = serialize(None, v, "op", "arn")
        except ExecutionError:
            return None, "rejected"
        except RecursionError:
            return None, "rejected-recursion"
        try:
            v2 = deserialize(None, s, "op", "arn")
        except ExecutionError as e:
            cause = type(e.__cause__).__name__ if e.__cause__ else "ExecutionError"
            return V(PROP, "C15/accepted-but-decode-fails/%s/%s" % (origin, cause), "serialize accepted %.80r but deserialize raised %s" % (v, cause)), "violation"
        except RecursionError:
            return V(PROP, "C15/accepted-but-decode-fails/%s/RecursionError" % origin, "deserialize RecursionError"), "violation"
    finally:
        sys.setrecursionlimit(20000)
    try:
        pass
    except ExecutionError as e:
        cause = type(e.__cause__).__name__ if e.__cause__ else "ExecutionError"
        return V(PROP, "C15/accepted-but-decode-fails/%s/%s" % (origin, cause), "serialize accepted %.80r but deserialize raised %s" % (v, cause)), "violation"
    except RecursionError:
        return V(PROP, "C15/accepted-but-decode-fails/%s/RecursionError" % origin, "deserialize RecursionError"), "violation"
    if canon(v2) != c0:
        d = first_diff(v, v2) or "unknown"
        return V(PROP, "C15/silently-altered/%s" % d, "value %.100r came back as %.100r" % (v, v2)), "violation"
    # the decoded value belongs to the caller: updating it in place must not change what the same text decodes to next time
    if _mutate(v2):
        sys.setrecursionlimit(DEFAULT_LIMIT)
        try:
            v3 = deserialize(None, s, "op", "arn")
        except (ExecutionError, RecursionError):
            return None, "roundtrip"
        finally:
            sys.setrecursionlimit(20000)
        if canon(v3) != c0:
            return V(PROP, "C15/decoded-value-aliased/%s" % (first_diff(v, v3) or "unknown"),
                     "after the caller updated the decoded value in place, the same text %.60r decoded to %.100r instead of %.100r" % (s, v3, v)), "violation"
    return None, "roundtrip"


def _mutate(x, depth=0) -> bool:
    """Update every list / dict inside x in place; True if something was changed."""
    if depth > 50:
        return False
    if type(x) is list:
        ch = any([_mutate(y, depth + 1) for y in x])
        x.append("<mutated>")
        return True or ch
    if type(x) is dict:
        ch = any([_mutate(y, depth + 1) for y in list(x.values())])
        x["<mutated>"] = 1
        return True or ch
    if type(x) is tuple:
        return any([_mutate(y, depth + 1) for y in x])
    if type(x).__name__ == "BatchResult":
        return any([_mutate(it.result, depth + 1) for it in x.all])
    return False


def cases(tier, seed):
    from checks.insitu import insitu_cases

    yield from insitu_cases(tier, seed)
    n = 160 if tier == "quick" else 4000
    for i in range(n):
        yield {"label": "values", "seed": seed * 1000003 + i, "n": 400, "kind": "random"}
    for i in range(24 if tier == "quick" else 400):
        yield {"label": "concurrent-first-use", "kind": "concurrent", "seed": seed * 7919 + i, "threads": [2, 4, 8][i % 3], "p": [0.0, 0.1, 0.3, 0.6][i % 4],
               "n": [6, 40, 120][(i // 3) % 3]}
    # long scalars and wide containers: buffer / chunk boundaries of an encoder (a blob just over 64 KiB, a string just over 1 MiB)
    for i, size in enumerate([65535, 65536, 65537, 98304, 131073, 200001, 1048577] if tier == "quick" else
                             [4095, 4097, 8193, 16385, 32769, 49153, 65535, 65536, 65537, 65538, 65539, 98304, 98305, 131071, 131073, 196609, 200001, 262145,
                              524289, 1048575, 1048577, 3 * 1048576 + 1]):
        for typ in ("bytes", "str", "nonascii", "list", "intdigits"):
            if typ == "list" and size > (140000 if tier == "quick" else 1100000):
                continue  # the oracle's own canonical form of a very wide list is the cost
            yield {"label": "sizes", "kind": "sizes", "seed": seed * 131 + i, "size": size, "typ": typ}
    for depth in ([50, 150, 240, 300, 450, 600] if tier == "quick" else [50, 100, 150, 200, 220, 240, 260, 280, 300, 330, 360, 400, 450, 500, 600]):
        for shape in ("list", "tuple", "dict", "mixed", "list-over-tuple", "list-over-intkey-dict", "list-over-dict"):
            yield {"label": "deep", "seed": seed * 31 + depth, "kind": "deep", "depth": depth, "shape": shape}


def run_case(case):
    if case.get("kind") == "insitu":
        from checks.insitu import run_insitu

        return run_insitu(case, PROP)
    if case.get("kind") == "concurrent":
        return run_concurrent(case)
    rng = random.Random(case["seed"])
    viol = []
    counts = {"roundtrip": 0, "rejected": 0, "violation": 0, "skipped": 0, "rejected-recursion": 0}
    classes = set()
    samples = []
    if case["kind"] == "sizes":
        n = case["size"]
        base = {"bytes": lambda: bytes(rng.randrange(256) for _ in range(257)) * (n // 257 + 1),
                "str": lambda: ("abcdefghijklmnopqrstuvwxyz0123456789" * (n // 36 + 1)),
                "nonascii": lambda: ("h\u00e9\u6f22\U0001F600z" * (n // 5 + 1)),
                "list": lambda: list(range(n)),
                "intdigits": lambda: None}[case["typ"]]()
        big = (base[:n] if base is not None else int("7" * min(n, 4000)) * (1 if n % 2 else -1))
        from aws_durable_execution_sdk_python.concurrency.models import BatchItem, BatchItemStatus, BatchResult, CompletionReason

        wrappers = [("root", lambda b: b), ("in-list", lambda b: [1, b, "x"]), ("in-dict", lambda b: {"k": b, "n": 1}), ("in-tuple", lambda b: (b, 2)),
                    ("in-batch-item", lambda b: BatchResult([BatchItem(0, BatchItemStatus.SUCCEEDED, result=b)], CompletionReason.ALL_COMPLETED))]
        if case["typ"] == "list":
            wrappers = wrappers[:2] + [("tuple-of", lambda b: tuple(b))]
        for wname, w in wrappers:
            x, how = check_value(w(big), "long-scalar")
            counts[how] += 1
            classes.add("sizes|%s|%s|%d|%s" % (case["typ"], wname, n, how))
            if x:
                x["case"] = case
                viol.append(x)
        samples.append("%s of %d units in %d positions" % (case["typ"], n, len(wrappers)))
    elif case["kind"] == "deep":
        depth = case["depth"]
        shape = case["shape"]
        v = rng.choice([1, "x", None, Decimal("1")])
        if shape.startswith("list-over-"):
            # a long single path of plain lists (the cheap JSON path) ending in something plain JSON cannot express
            v = {"list-over-tuple": (1, 2), "list-over-intkey-dict": {1: "one", 2: "two"}, "list-over-dict": {"a": (1,)}}[shape]
            shape = "list"
        for d in range(depth):
            k = shape if shape != "mixed" else rng.choice(["list", "tuple", "dict"])
            v = [v] if k == "list" else ((v,) if k == "tuple" else {"k": v})
        x, how = check_value(v, "deep-nesting")
        counts[how] += 1
        classes.add("deep|%s|%d|%s" % (shape, depth, how))
        if x:
            x["case"] = case
            viol.append(x)
        samples.append("depth %d %s chain -> %s" % (depth, shape, how))
    else:
        import decimal

        narrow = case["seed"] % 4 == 3  # the caller's arithmetic context must not leak into the codec
        for _ in range(case["n"]):
            v = gen(rng, 0, rng.choice([2, 4, 8]))
            if narrow:
                with decimal.localcontext() as dctx:
                    dctx.prec = rng.choice([1, 3, 9])
                    dctx.rounding = decimal.ROUND_DOWN
                    x, how = check_value(v, "value")
            else:
                x, how = check_value(v, "value")
            counts[how] += 1
            try:
                classes.add("%s|%s" % (canon(v)[:3], how) + "|" + str(min(len(canon(v)) // 50, 6)))
            except RecursionError:
                pass
            if x:
                x["case"] = {"label": "values", "seed": case["seed"], "n": case["n"], "kind": "random"}
                viol.append(x)
            if len(samples) < 2:
                samples.append("%.120r -> %s" % (v, how))
    return {"execs": sum(counts.values()), "classes": classes, "violations": viol,
            "obs": {"values_roundtripped": counts["roundtrip"], "values_rejected": counts["rejected"] + counts["rejected-recursion"],
                    "values_violating": counts["violation"]},
            "sample": {"label": case["label"], "examples": samples}}


def run_concurrent(case):
    """T threads of a fresh interpreter serialize and deserialize the same values at once through the shared default
    serializer (as map/parallel branches do); every thread's outcome and decoded value must equal the sequential ones."""
    from checks.concurrent_codec import run_trial

    rng = random.Random(case["seed"])
    items = []
    while len(items) < case["n"]:
        v = gen(rng, 0, rng.choice([2, 3, 4]), adversarial=False)
        try:
            canon(v)
        except RecursionError:
            continue
        items.append(v)
    verdict, det = run_trial("c15", items, case["seed"], threads=case["threads"], p=case["p"])
    viol = []
    if verdict == "differs":
        t, i, a, b = det["diffs"][0]
        x = V(PROP, "C15/concurrent-use-differs/%s" % ("outcome" if a[0] != b[0] else "value"),
              "thread %d of %d serializing %.120r concurrently (fresh interpreter) gave %.200r, sequentially %.200r; %d differing conversions"
              % (t, case["threads"], items[i], b, a, det["n_diffs"]))
        x["case"] = case
        viol.append(x)
    return {"execs": 1, "classes": {"concurrent|T%d|p%s|n%d|%s" % (case["threads"], case["p"], case["n"], verdict)}, "violations": viol,
            "obs": {"concurrent_trials": 1 if verdict != "inconclusive" else 0, "concurrent_conversions": det.get("conversions", 0),
                    "concurrent_yield_hits": det.get("hits", 0), "concurrent_inconclusive": 1 if verdict == "inconclusive" else 0},
            "sample": {"label": "concurrent-first-use", "threads": case["threads"], "p": case["p"], "verdict": verdict, "detail": str(det)[:300]}}


RULE = ("seeded typed-grammar generator over the serializer's stated domain (exact-type None/bool/int to 4300 digits/float incl. +-inf, nan, -0.0/"
        "str incl. lone surrogates/bytes/UUID/Decimal incl. NaN, sNaN with payload, Inf, up to 100 significant digits, a quarter of the cases under a narrow caller decimal context/datetime naive, UTC, arbitrary fixed offsets, fold/date; lists, tuples, "
        "string-keyed dicts, BatchResults to depth 8; chains to depth 600) plus adversarial classes (envelope look-alikes, empty containers, "
        "bool/int/float look-alikes, dicts with int/bool/None/float/bytes/tuple/UUID/date/Decimal keys and colliding keys). Oracle: serialize "
        "raises, or canon(deserialize(serialize(v))) == canon(v), and after the caller updates the decoded value in place the same text still decodes to v; oracle form: canon(deserialize(serialize(v))) == canon(v) with a type-tagged NaN/-0.0/Decimal/tz-aware canonical form. A class = "
        "(leading type tag, outcome, size bucket).")

if __name__ == "__main__":
    sys.exit(harness.main_for("checks.c15", PROP, "exploration", RULE,
                              ["canon() is the equality oracle (exact types at every level; Decimal compared by its string form; datetime by isoformat+utcoffset+fold)",
                               "subclasses (IntEnum, namedtuple, OrderedDict, bytearray) are outside the stated grammar and not generated"],
                              {"values_roundtripped": 20000, "insitu_contract_evaluations_serialize": 50, "concurrent_trials": 10}))
