"""C01 world check (see DESIGN.md section 2, C01)."""
from checks.worldcheck import Spec, replayed_delivery

PROP = "C01"
L = 256 * 1024


def explicit(tier, seed):
    """Contexts recorded as a summary (result over the checkpoint size limit): their bodies are traversed again on replay, and the
    completed operations inside them must be answered from the record, at every nesting depth."""
    from checks.c02 import explicit as big_results

    for c in big_results(tier, seed):
        yield dict(c, label="c01-" + c["label"])
    i = 0
    tail = [{"k": "wait", "s": 1}, {"k": "step", "val": "after"}, {"k": "wait", "s": 1}, {"k": "step", "val": "after2"}]
    inner_sets = ([{"k": "step", "val": "in1"}, {"k": "wait", "s": 1}, {"k": "step", "val": "in2"}],
                  [{"k": "child", "body": [{"k": "step", "val": "deep"}, {"k": "step", "val": {"a": [1, 2]}}]}, {"k": "step", "val": 3}],
                  [{"k": "step", "script": [{"do": "fail", "cls": "ValueError", "msg": "once"}, {"do": "ok", "val": 7}],
                    "retry": {"decisions": [("retry", 1), ("stop",)]}}, {"k": "wfc", "init": 0, "decisions": [("cont", 1), ("stop",)]}],
                  [{"k": "par", "branches": [{"body": [{"k": "step", "val": "pa"}]}, {"body": [{"k": "step", "val": "pb"}, {"k": "wait", "s": 1}]}], "cfg": None}],
                  [{"k": "try", "body": {"k": "wfcb"}, "catch": "*"}, {"k": "step", "val": "post-cb"}])
    for n in (L + 10, 3 * L):
        for inner in inner_sets:
            big = {"k": "child", "body": inner, "result": {"big": n}, "cfg": None if i % 2 else {"summary": '{"s":1}'}}
            for wrap in (0, 1):
                node = big if not wrap else {"k": "child", "body": [{"k": "step", "val": "pre"}, big, {"k": "step", "val": "post"}]}
                yield {"label": "c01-summarised-context", "prog": {"body": [node] + tail}, "prog_seed": 26000 + i,
                       "pattern": {"p": "crash_enum", "max_points": 10} if (tier != "quick" or i % 4 == 0) else {"p": "plain"},
                       "pages": [{}, {"first_page": 1, "page_size": 2}][i % 2]}
                i += 1
        for kind in ("par", "map"):
            brs = [{"body": [{"k": "step", "val": "x%d" % j}, {"k": "wait", "s": 1 + j}, {"k": "step", "val": "y%d" % j}], "result": {"big": n // 2 + 10}} for j in range(2)]
            node = {"k": "par", "branches": brs, "cfg": None} if kind == "par" else {"k": "map", "items": [0, 1], "per_item": brs, "body": [], "cfg": None}
            yield {"label": "c01-summarised-" + kind, "prog": {"body": [node] + tail}, "prog_seed": 26000 + i,
                   "pattern": {"p": "crash_enum", "max_points": 10} if tier != "quick" else {"p": "plain"}}
            i += 1
SPEC = Spec(
    PROP,
    level="fault_enumeration",
    rule="random programs (all nine operation kinds, nesting<=3) x {uninterrupted with random pagination/latency, every single "
    "crash point of a small-program corpus, random multi-crash, asynchronous SIGKILL, yield injection}; at every user-function entry the backend table must not hold that operation terminal (context bodies excepted only under ReplayChildren); every operation terminal at invocation start must deliver the recorded kind of outcome. Explicit slice: child contexts / map / parallel whose result exceeds the checkpoint size limit (recorded as a summary, body traversed again on replay) with steps, retried steps, waits, conditions, callbacks and nested contexts inside, at two nesting depths. Non-trivial = an operation that was terminal at an invocation's start was delivered again (replayed) in that invocation. "
    "A class = (program shape hash, interruption pattern, event kind at which the crash landed).",
    deciding=replayed_delivery,
    explicit=explicit,
)
cases = SPEC.cases
run_case = SPEC.run_case
if __name__ == "__main__":
    SPEC.main("checks.c01")
