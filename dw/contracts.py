"""In-situ contracts (icontract) attached from the harness to the real SDK functions (DESIGN 1.7).

Conditions record and return True (a raising postcondition inside SDK threads would change the behaviour being
observed); evaluations are counted, violations are posted to the parent as 'contract' events."""
from __future__ import annotations

import json
import sys

COUNTS: dict[str, int] = {}
RT = None


def _hit(name):
    COUNTS[name] = COUNTS.get(name, 0) + 1


def _viol(name, detail):
    if RT is not None:
        RT.post("contract", name=name, detail=str(detail)[:400])


def rebind(old, new) -> int:
    """Replace every module-level reference to `old` (from m import f copies included) by `new`."""
    n = 0
    for m in list(sys.modules.values()):
        d = getattr(m, "__dict__", None)
        if not d or not getattr(m, "__name__", "").startswith("aws_durable_execution_sdk_python"):
            continue
        for k, v in list(d.items()):
            if v is old:
                d[k] = new
                n += 1
    return n


def install(rt) -> dict:
    global RT  # noqa: PLW0603
    RT = rt
    try:
        import icontract
    except ImportError:
        return {"attached": 0, "why": "icontract not importable"}
    from aws_durable_execution_sdk_python import lambda_service as L
    from aws_durable_execution_sdk_python import serdes as S
    from aws_durable_execution_sdk_python import state as ST

    from dw.canon import canon

    attached = 0

    class ContractBroken(Exception):
        pass

    # C15: default serialization round-trips (only when the default serdes is in use)
    def serialize_roundtrips(serdes, value, result):
        if serdes is not None:
            return True
        _hit("serialize")
        try:
            back = S.EXTENDED_TYPES_SERDES.deserialize(result, None)
            if canon(back) != canon(value):
                _viol("C15/in-situ/serialize-not-invertible", "%.100r -> %.100r" % (value, back))
        except RecursionError:
            pass
        except Exception as e:  # noqa: BLE001
            _viol("C15/in-situ/serialized-text-not-decodable", "%s: %.100r" % (type(e).__name__, value))
        return True

    orig = S.serialize
    wrapped = icontract.ensure(serialize_roundtrips, error=ContractBroken)(orig)
    attached += rebind(orig, wrapped)

    # C20: the wire form of every update really sent decodes back to the same update
    def to_dict_invertible(self, result):
        _hit("update_to_dict")
        try:
            back = L.OperationUpdate.from_dict(result)
            a, b = _norm_update(self), _norm_update(back)
            if a != b:
                _viol("C20/in-situ/update-wire-form-lossy", "%r != %r" % (a, b))
        except Exception as e:  # noqa: BLE001
            _viol("C20/in-situ/update-wire-form-not-decodable", "%s" % type(e).__name__)
        return True

    L.OperationUpdate.to_dict = icontract.ensure(to_dict_invertible, error=ContractBroken)(L.OperationUpdate.to_dict)
    attached += 1

    # C05: every collected batch respects the configured limits
    def batch_within_limits(self, result):
        _hit("collect_batch")
        cfg = self._batcher_config
        if len(result) > cfg.max_batch_operations:
            _viol("C05/in-situ/batch-operation-count-over-limit", "%d > %d" % (len(result), cfg.max_batch_operations))
        sizes = [len(json.dumps(q.operation_update.to_dict()).encode()) for q in result if q.operation_update is not None]
        if len(sizes) > 1 and sum(sizes) > cfg.max_batch_size_bytes:
            _viol("C05/in-situ/batch-size-over-limit", "%d bytes in %d updates" % (sum(sizes), len(sizes)))
        return True

    ST.ExecutionState._collect_checkpoint_batch = icontract.ensure(batch_within_limits, error=ContractBroken)(ST.ExecutionState._collect_checkpoint_batch)
    attached += 1
    return {"attached": attached}


def _norm_update(u):
    def e(x):
        return None if x in (None, "") else x

    err = u.error
    return (u.operation_id, u.operation_type, u.action, e(u.parent_id), e(u.name), u.sub_type, e(u.payload),
            None if err is None or not any(v is not None for v in (err.message, err.type, err.data, err.stack_trace)) else (err.message, err.type, err.data, tuple(err.stack_trace) if err.stack_trace is not None else None),
            u.context_options, u.step_options, u.wait_options, u.callback_options, u.chained_invoke_options)
