"""C20 - wire model codecs are lossless inverses (input-space monitor on the public to/from methods and factories)."""
from __future__ import annotations

import dataclasses
import datetime as _dt
import json
import random
import sys

from dw import harness
from dw.monitors import V

PROP = "C20"
UTC = _dt.timezone.utc


def opt_str(rng, allow_empty=True):
    return rng.choice([None, "x", "some-id-%d" % rng.randrange(99), "üñí"] + ([""] if allow_empty else []))


def _long_trace(rng):
    n = rng.choice([129, 200, 400, 1000])
    return ["  File \"f.py\", line %d, in frame_%d" % (i, i) for i in range(n)]


def gen_error(rng):
    from aws_durable_execution_sdk_python.lambda_service import ErrorObject

    while True:
        e = ErrorObject(message=rng.choice([None, "msg", ""]), type=rng.choice([None, "ValueError", ""]), data=rng.choice([None, "data"]),
                        stack_trace=rng.choice([None, [], ["f1", "f2"], ["f1", "f2"]]) if rng.random() > 0.03 else _long_trace(rng))
        if any(x is not None for x in (e.message, e.type, e.data, e.stack_trace)):
            return e


def gen_ts(rng, epoch0=False):
    if epoch0:
        return _dt.datetime.fromtimestamp(0, tz=UTC)
    tz = rng.choice([UTC, UTC, _dt.timezone(_dt.timedelta(hours=5, minutes=30)), _dt.timezone(_dt.timedelta(hours=-8)),
                     _dt.timezone(_dt.timedelta(hours=13, minutes=45))])
    # mostly 2000-2100; one in eight from the first years after the epoch (small millisecond values) 
    lo, hi = (946684800, 4102444800) if rng.random() > 0.125 else rng.choice([(1, 10**8), (10**8, 946684800)])
    return _dt.datetime.fromtimestamp(rng.uniform(lo, hi), tz=tz).replace(microsecond=rng.choice([0, 1, 999, 1000, 123456, 999999]))


def gen_update(rng):
    from aws_durable_execution_sdk_python import lambda_service as L

    return L.OperationUpdate(
        operation_id=rng.choice(["id1", "a" * 64]),
        operation_type=rng.choice(list(L.OperationType)),
        action=rng.choice(list(L.OperationAction)),
        parent_id=opt_str(rng),
        name=opt_str(rng),
        sub_type=rng.choice([None] + list(L.OperationSubType)),
        payload=rng.choice([None, "", "{}", "p" * rng.randrange(1, 50)]),
        error=rng.choice([None, gen_error(rng)]),
        context_options=rng.choice([None, L.ContextOptions(True), L.ContextOptions(False)]),
        step_options=rng.choice([None, L.StepOptions(0), L.StepOptions(rng.randrange(1, 1000))]),
        wait_options=rng.choice([None, L.WaitOptions(1), L.WaitOptions(rng.randrange(1, 10**6))]),
        callback_options=rng.choice([None, L.CallbackOptions(0, 0), L.CallbackOptions(rng.randrange(100), rng.randrange(100))]),
        chained_invoke_options=rng.choice([None, L.ChainedInvokeOptions("fn"), L.ChainedInvokeOptions("fn", "tenant"), L.ChainedInvokeOptions("fn", "")]),
    )


def gen_operation(rng, epoch0=False):
    from aws_durable_execution_sdk_python import lambda_service as L

    typ = rng.choice(list(L.OperationType))
    kw = {}
    if rng.random() < 0.6 or typ is L.OperationType.EXECUTION:
        if typ is L.OperationType.EXECUTION:
            kw["execution_details"] = L.ExecutionDetails(rng.choice([None, "", "{}", '{"a":1}']))
        elif typ is L.OperationType.CONTEXT:
            kw["context_details"] = L.ContextDetails(rng.random() < 0.5, rng.choice([None, "", "res"]), rng.choice([None, gen_error(rng)]))
        elif typ is L.OperationType.STEP:
            kw["step_details"] = L.StepDetails(rng.randrange(0, 9), rng.choice([None, gen_ts(rng, epoch0)]), rng.choice([None, "", "res"]),
                                               rng.choice([None, gen_error(rng)]))
        elif typ is L.OperationType.WAIT:
            kw["wait_details"] = L.WaitDetails(rng.choice([None, gen_ts(rng, epoch0)]))
        elif typ is L.OperationType.CALLBACK:
            kw["callback_details"] = L.CallbackDetails(rng.choice(["cb1", ""]), rng.choice([None, "", "r"]), rng.choice([None, gen_error(rng)]))
        elif typ is L.OperationType.CHAINED_INVOKE:
            kw["chained_invoke_details"] = L.ChainedInvokeDetails(rng.choice([None, "", "r"]), rng.choice([None, gen_error(rng)]))
    return L.Operation(
        operation_id=rng.choice(["op1", "b" * 64]), operation_type=typ, status=rng.choice(list(L.OperationStatus)), parent_id=opt_str(rng),
        name=opt_str(rng), start_timestamp=rng.choice([None, gen_ts(rng, epoch0)]), end_timestamp=rng.choice([None, gen_ts(rng, epoch0)]),
        sub_type=rng.choice([None] + list(L.OperationSubType)), **kw)


def norm(x, ms=False, path=""):  # noqa: C901, PLR0911
    """Normal form applying exactly the permitted losses: '' == absent for optional strings; ms truncation on the JSON path;
    an entirely empty details object == absent."""
    if dataclasses.is_dataclass(x) and not isinstance(x, type):
        d = {f.name: norm(getattr(x, f.name), ms, f.name) for f in dataclasses.fields(x)}
        name = type(x).__name__
        if name in ("WaitDetails", "ChainedInvokeDetails") and all(v is None for v in d.values()):
            return None
        return (name, tuple(sorted(d.items(), key=lambda kv: kv[0])))
    if isinstance(x, _dt.datetime):
        exact_us = (x - _dt.datetime(1970, 1, 1, tzinfo=UTC)) // _dt.timedelta(microseconds=1)
        if ms:
            return ("dt", exact_us // 1000)
        return ("dt", exact_us)
    if isinstance(x, str):
        if x == "" and path in ("parent_id", "name", "payload", "result", "next_marker"):
            return None
        return x
    if isinstance(x, list):
        return ("list", tuple(norm(v, ms, path) for v in x))
    if isinstance(x, dict):
        return ("RAW-DICT", tuple(sorted((k, norm(v, ms, k)) for k, v in x.items())))
    if hasattr(x, "value") and x.__class__.__module__.endswith(("lambda_service", "execution")):
        return ("enum", x.value)
    return x


def diff(a, b, path=""):
    if a == b:
        return None
    if isinstance(a, tuple) and isinstance(b, tuple) and len(a) == 2 and len(b) == 2 and a[0] == b[0] and isinstance(a[1], tuple) and isinstance(b[1], tuple):
        da, db = dict(a[1]) if all(isinstance(i, tuple) and len(i) == 2 for i in a[1]) else None, None
        try:
            da, db = dict(a[1]), dict(b[1])
        except (TypeError, ValueError):
            return path or a[0]
        for k in da:
            d = diff(da.get(k), db.get(k), (path + "." if path else "") + str(k))
            if d:
                return d
        return path
    if isinstance(b, tuple) and b and b[0] == "RAW-DICT":
        return (path or "?") + ":raw-dict-instead-of-object"
    if isinstance(a, tuple) and a and a[0] == "dt":
        return (path or "?") + ":timestamp"
    return path or "?"


def _ts_tag(d, epoch0, nx=None, ny=None):
    if d and d.endswith(":timestamp"):
        if epoch0:
            return "/epoch-zero-timestamp"
        return "/off-by-one-ms-float-rounding" if _off_by_one(nx, ny) else ""
    return ""


def _off_by_one(nx, ny):
    """True when the only differences between two normal forms are timestamps differing by exactly 1 ms."""
    def flat(n, out):
        if isinstance(n, tuple):
            if len(n) == 2 and n[0] == "dt":
                out.append(n[1])
            else:
                for i in n:
                    flat(i, out)
        return out
    a, b = flat(nx, []), flat(ny, [])
    return len(a) == len(b) and any(x != y for x, y in zip(a, b)) and all(abs(x - y) <= 1 for x, y in zip(a, b))


def check_instance(kind, x, viol, counts, epoch0=False):
    tag = ""
    if kind == "update":
        y = type(x).from_dict(x.to_dict())
        counts["update"] += 1
        if norm(y) != norm(x):
            viol.append(V(PROP, "C20/update-roundtrip-lossy/%s" % diff(norm(x), norm(y)), "%r -> %r" % (x, y)))
        return
    if kind == "operation":
        d = x.to_dict()
        y = type(x).from_dict(d)
        counts["operation"] += 1
        if norm(y) != norm(x):
            d = diff(norm(x), norm(y))
            viol.append(V(PROP, "C20/operation-dict-roundtrip-lossy/%s%s" % (d, _ts_tag(d, epoch0, norm(x), norm(y))), "%r -> %r" % (x, y)))
        j = x.to_json_dict()
        try:
            frozen = json.dumps(j, sort_keys=True)
        except (TypeError, ValueError) as e:
            viol.append(V(PROP, "C20/operation-json-dict-not-json-serializable" + tag, str(e)))
            return
        z = type(x).from_json_dict(j)
        # decoding must not alter the wire dictionary it was given, and decoding it again must give the same object
        try:
            if json.dumps(j, sort_keys=True) != frozen:
                viol.append(V(PROP, "C20/from-json-dict-mutates-its-input", "wire dict changed by decoding: %r" % (x,)))
        except (TypeError, ValueError):
            viol.append(V(PROP, "C20/from-json-dict-mutates-its-input", "wire dict no longer JSON after decoding: %r" % (x,)))
        try:
            z2 = type(x).from_json_dict(j)
            if norm(z2, ms=True) != norm(z, ms=True):
                viol.append(V(PROP, "C20/second-decode-of-same-wire-dict-differs", "%r" % (x,)))
        except Exception as e:  # noqa: BLE001
            viol.append(V(PROP, "C20/second-decode-of-same-wire-dict-fails/%s" % type(e).__name__, "%r" % (x,)))
        if z.to_json_dict() != json.loads(frozen) and norm(z, ms=True) == norm(x, ms=True):
            j0 = json.loads(frozen)
            if norm(type(x).from_json_dict(z.to_json_dict()), ms=True) != norm(z, ms=True):
                viol.append(V(PROP, "C20/re-encoded-json-dict-differs", "%r" % (x,)))
        if norm(z, ms=True) != norm(x, ms=True):
            d = diff(norm(x, True), norm(z, True))
            viol.append(V(PROP, "C20/operation-json-roundtrip-lossy/%s%s" % (d, _ts_tag(d, epoch0, norm(x, True), norm(z, True))), "%r -> %r" % (x, z)))
        # encoding is repeatable on the SAME object, in any order of the two forms (an encoder must not leave anything behind on it)
        try:
            y2 = type(x).from_dict(x.to_dict())
            j2 = x.to_json_dict()
            if norm(y2) != norm(x):
                viol.append(V(PROP, "C20/encoding-again-on-the-same-object-differs/dict-form-after-json-form/%s" % diff(norm(x), norm(y2)), "%r -> %r" % (x, y2)))
            elif json.dumps(j2, sort_keys=True) != frozen:
                viol.append(V(PROP, "C20/encoding-again-on-the-same-object-differs/json-form", "%r" % (x,)))
        except Exception as e:  # noqa: BLE001
            viol.append(V(PROP, "C20/encoding-again-on-the-same-object-fails/%s" % type(e).__name__, "%r: %s" % (x, e)))
        return
    if kind == "input":
        y = type(x).from_dict(x.to_dict())
        counts["input"] += 1
        if norm(y) != norm(x):
            viol.append(V(PROP, "C20/invocation-input-dict-roundtrip-lossy/via-operation-codec", "%r" % (x,)))
        j = x.to_json_dict()
        try:
            json.dumps(j)
        except (TypeError, ValueError) as e:
            viol.append(V(PROP, "C20/invocation-input-json-dict-not-json-serializable" + tag, str(e)))
            return
        z = type(x).from_json_dict(j)
        if norm(z, True) != norm(x, True):
            viol.append(V(PROP, "C20/invocation-input-json-roundtrip-lossy/via-operation-codec", "%r" % (x,)))
        # the decoded object belongs to its caller (the SDK itself appends fetched pages to the decoded list): whatever is done to it,
        # decoding the same / another wire dictionary afterwards must not be affected
        try:
            ops = z.initial_execution_state.operations
            if isinstance(ops, list):
                ops.append(ops[0] if ops else "sentinel")
            z2 = type(x).from_json_dict(x.to_json_dict())
            y2 = type(x).from_dict(x.to_dict())
            if norm(z2, True) != norm(x, True) or norm(y2) != norm(x):
                viol.append(V(PROP, "C20/decoded-object-aliased-across-decodes/invocation-input", "after the caller extended a decoded operations list, %r decoded differently" % (x,)))
        except Exception as e:  # noqa: BLE001
            viol.append(V(PROP, "C20/decode-after-caller-mutation-fails/%s" % type(e).__name__, "%r: %s" % (x, e)))
        return
    if kind == "output":
        y = type(x).from_dict(x.to_dict())
        counts["output"] += 1
        if norm(y) != norm(x):
            viol.append(V(PROP, "C20/invocation-output-roundtrip-lossy/%s" % diff(norm(x), norm(y)), "%r -> %r" % (x, y)))


def check_factories(rng, viol, counts):
    from aws_durable_execution_sdk_python import lambda_service as L
    from aws_durable_execution_sdk_python.identifier import OperationIdentifier

    ident = OperationIdentifier("oid-%d" % rng.randrange(99), rng.choice([None, "parent"]), rng.choice([None, "nm"]))
    err = gen_error(rng)
    payload = rng.choice(["{}", "payload", "x" * 40])
    delay = rng.choice([0, 1, 77])
    cbo = L.CallbackOptions(rng.choice([0, 30]), rng.choice([0, 5]))
    cio = L.ChainedInvokeOptions("fn-%d" % rng.randrange(9), rng.choice([None, "tenant-a"]))
    wo = L.WaitOptions(rng.choice([1, 3600]))
    rc = rng.random() < 0.5
    st = rng.choice([L.OperationSubType.MAP, L.OperationSubType.PARALLEL_BRANCH, L.OperationSubType.RUN_IN_CHILD_CONTEXT])
    made = [
        ("create_callback", L.OperationUpdate.create_callback(ident, cbo), {"CallbackOptions": {"TimeoutSeconds": cbo.timeout_seconds, "HeartbeatTimeoutSeconds": cbo.heartbeat_timeout_seconds}, "Type": "CALLBACK", "Action": "START"}),
        ("create_context_start", L.OperationUpdate.create_context_start(ident, st), {"Type": "CONTEXT", "Action": "START", "SubType": st.value}),
        ("create_context_succeed", L.OperationUpdate.create_context_succeed(ident, payload, st, L.ContextOptions(rc)), {"Type": "CONTEXT", "Action": "SUCCEED", "SubType": st.value, "Payload": payload, "ContextOptions": {"ReplayChildren": rc}}),
        ("create_context_fail", L.OperationUpdate.create_context_fail(ident, err, st), {"Type": "CONTEXT", "Action": "FAIL", "SubType": st.value, "Error": err.to_dict()}),
        ("create_step_start", L.OperationUpdate.create_step_start(ident), {"Type": "STEP", "Action": "START", "SubType": "Step"}),
        ("create_step_succeed", L.OperationUpdate.create_step_succeed(ident, payload), {"Type": "STEP", "Action": "SUCCEED", "Payload": payload}),
        ("create_step_fail", L.OperationUpdate.create_step_fail(ident, err), {"Type": "STEP", "Action": "FAIL", "Error": err.to_dict()}),
        ("create_step_retry", L.OperationUpdate.create_step_retry(ident, err, delay), {"Type": "STEP", "Action": "RETRY", "Error": err.to_dict(), "StepOptions": {"NextAttemptDelaySeconds": delay}}),
        ("create_invoke_start", L.OperationUpdate.create_invoke_start(ident, payload, cio), {"Type": "CHAINED_INVOKE", "Action": "START", "Payload": payload, "ChainedInvokeOptions": dict({"FunctionName": cio.function_name}, **({"TenantId": cio.tenant_id} if cio.tenant_id is not None else {}))}),
        ("create_wfc_start", L.OperationUpdate.create_wait_for_condition_start(ident), {"Type": "STEP", "Action": "START", "SubType": "WaitForCondition"}),
        ("create_wfc_succeed", L.OperationUpdate.create_wait_for_condition_succeed(ident, payload), {"Type": "STEP", "Action": "SUCCEED", "SubType": "WaitForCondition", "Payload": payload}),
        ("create_wfc_retry", L.OperationUpdate.create_wait_for_condition_retry(ident, payload, delay), {"Type": "STEP", "Action": "RETRY", "SubType": "WaitForCondition", "Payload": payload, "StepOptions": {"NextAttemptDelaySeconds": delay}}),
        ("create_wfc_fail", L.OperationUpdate.create_wait_for_condition_fail(ident, err), {"Type": "STEP", "Action": "FAIL", "SubType": "WaitForCondition", "Error": err.to_dict()}),
        ("create_wait_start", L.OperationUpdate.create_wait_start(ident, wo), {"Type": "WAIT", "Action": "START", "WaitOptions": {"WaitSeconds": wo.wait_seconds}}),
    ]
    for name, upd, want in made:
        counts["factory"] += 1
        w = upd.to_dict()
        want = dict(want)
        want["Id"] = ident.operation_id
        if ident.parent_id:
            want["ParentId"] = ident.parent_id
        if ident.name:
            want["Name"] = ident.name
        for k, v in want.items():
            if w.get(k) != v:
                viol.append(V(PROP, "C20/factory-option-missing/%s/%s" % (name, k), "%s: wire %r lacks %s=%r" % (name, w, k, v)))
    for name, upd, want in (("create_execution_succeed", L.OperationUpdate.create_execution_succeed(payload), {"Type": "EXECUTION", "Action": "SUCCEED", "Payload": payload}),
                            ("create_execution_fail", L.OperationUpdate.create_execution_fail(err), {"Type": "EXECUTION", "Action": "FAIL", "Error": err.to_dict()})):
        counts["factory"] += 1
        w = upd.to_dict()
        for k, v in want.items():
            if w.get(k) != v:
                viol.append(V(PROP, "C20/factory-option-missing/%s/%s" % (name, k), "wire %r" % (w,)))


def cases(tier, seed):
    from checks.insitu import insitu_cases

    yield from insitu_cases(tier, seed)
    n = 64 if tier == "quick" else 1600
    for i in range(n):
        yield {"label": "models", "seed": seed * 1000003 + i, "n": 300, "epoch0": i % 16 == 15}
    for i in range(24 if tier == "quick" else 400):
        yield {"label": "concurrent-first-use", "kind": "concurrent", "seed": seed * 7919 + i, "threads": [2, 4, 8][i % 3], "p": [0.0, 0.1, 0.3, 0.6][i % 4],
               "n": [6, 40, 120][(i // 3) % 3]}


def run_case(case):
    if case.get("kind") == "insitu":
        from checks.insitu import run_insitu

        return run_insitu(case, PROP)
    from aws_durable_execution_sdk_python import execution as E

    if case.get("kind") == "concurrent":
        return run_concurrent(case)
    rng = random.Random(case["seed"])
    viol: list = []
    counts = {"update": 0, "operation": 0, "input": 0, "output": 0, "factory": 0}
    classes = set()
    samples = []
    ep = case.get("epoch0", False)
    for i in range(case["n"]):
        u = gen_update(rng)
        check_instance("update", u, viol, counts)
        classes.add("U|%s|%s|%s" % (u.operation_type.value, u.action.value, u.sub_type.value if u.sub_type else None))
        o = gen_operation(rng, ep)
        check_instance("operation", o, viol, counts, ep)
        classes.add("O|%s|%s|%s" % (o.operation_type.value, o.status.value, ep))
        ops = [gen_operation(rng, ep) for _ in range(rng.randrange(0, 3))]
        if i % 60 == 7:
            # long histories: an invocation event may carry hundreds of operations in its first page (order is part of the value)
            ops = [gen_operation(rng, ep) for _ in range(rng.choice([63, 64, 65, 127, 128, 129, 255, 256, 257, 300, 511, 513, 1000, 1025]))]
            classes.add("INPUT-long|%d" % (len(ops) // 128))
        inp = E.DurableExecutionInvocationInput(durable_execution_arn=rng.choice(["arn:x", ""]), checkpoint_token=rng.choice(["tok", ""]),
                                                initial_execution_state=E.InitialExecutionState(operations=ops, next_marker=rng.choice(["", "mk"])))
        check_instance("input", inp, viol, counts, ep)
        out = E.DurableExecutionInvocationOutput(status=rng.choice(list(E.InvocationStatus)), result=rng.choice([None, "", "{}", "r"]),
                                                 error=rng.choice([None, gen_error(rng)]))
        check_instance("output", out, viol, counts)
        classes.add("OUT|%s|%s|%s" % (out.status.value, out.result is None, out.error is None))
        if i % 10 == 0:
            check_factories(rng, viol, counts)
        if len(samples) < 2:
            samples.append(repr(o)[:300])
    for v in viol:
        v["case"] = case
    return {"execs": sum(counts.values()), "classes": classes, "violations": viol,
            "obs": {"updates_checked": counts["update"], "operations_checked": counts["operation"], "inputs_checked": counts["input"],
                    "outputs_checked": counts["output"], "factory_calls_checked": counts["factory"]},
            "sample": {"label": "models", "examples": samples}}


def run_concurrent(case):
    """T threads of a fresh interpreter decode and re-encode the same wire dictionaries at once (first use); every thread's
    result must equal the sequential one."""
    from aws_durable_execution_sdk_python import execution as E
    from checks.concurrent_codec import run_trial

    rng = random.Random(case["seed"])
    items = []
    for i in range(case["n"]):
        c = i % 4
        if c == 0:
            u = gen_update(rng)
            items.append(("update", "dict", u.to_dict()))
        elif c == 1:
            o = gen_operation(rng)
            items.append(("operation", rng.choice(["dict", "json"]), None))
            items[-1] = (items[-1][0], items[-1][1], o.to_dict() if items[-1][1] == "dict" else o.to_json_dict())
        elif c == 2:
            ops = [gen_operation(rng) for _ in range(rng.randrange(1, 4))]
            inp = E.DurableExecutionInvocationInput(durable_execution_arn="arn:x", checkpoint_token="tok",
                                                    initial_execution_state=E.InitialExecutionState(operations=ops, next_marker=""))
            path = rng.choice(["dict", "json"])
            items.append(("input", path, inp.to_dict() if path == "dict" else inp.to_json_dict()))
        else:
            out = E.DurableExecutionInvocationOutput(status=rng.choice(list(E.InvocationStatus)), result=rng.choice([None, "{}", "r"]),
                                                     error=rng.choice([None, gen_error(rng)]))
            items.append(("output", "dict", out.to_dict()))
    verdict, det = run_trial("c20", items, case["seed"], threads=case["threads"], p=case["p"])
    viol = []
    if verdict == "differs":
        t, i, a, b = det["diffs"][0]
        v = V(PROP, "C20/concurrent-use-differs/%s" % items[i][0],
              "thread %d of %d decoding %s #%d concurrently (fresh interpreter) gave %.300r, sequentially %.300r; %d differing conversions"
              % (t, case["threads"], items[i][0], i, b, a, det["n_diffs"]))
        v["case"] = case
        viol.append(v)
    return {"execs": 1, "classes": {"concurrent|T%d|p%s|n%d|%s" % (case["threads"], case["p"], case["n"], verdict)}, "violations": viol,
            "obs": {"concurrent_trials": 1 if verdict != "inconclusive" else 0, "concurrent_conversions": det.get("conversions", 0),
                    "concurrent_yield_hits": det.get("hits", 0), "concurrent_inconclusive": 1 if verdict == "inconclusive" else 0},
            "sample": {"label": "concurrent-first-use", "threads": case["threads"], "p": case["p"], "verdict": verdict, "detail": str(det)[:300]}}


RULE = ("seeded generator of well-typed instances of OperationUpdate, Operation, DurableExecutionInvocationInput and "
        "DurableExecutionInvocationOutput over every operation type/status/sub-type/action, absent/empty/non-empty optionals, nested error "
        "objects (at least one field set; stack traces of 0-1000 frames), timestamps 2000-2100 (one in eight 1970-1999, incl. the first years after the epoch) with sub-millisecond parts (epoch-0 in a separate slice). Oracle: "
        "N(from_dict(to_dict(x))) == N(x) and N(from_json_dict(to_json_dict(x))) == N(x) where N applies exactly the permitted losses "
        "(ms truncation on the JSON path; '' == absent for optional strings; an entirely empty details object == absent), to_json_dict is "
        "JSON-serializable, and every OperationUpdate.create_* factory's wire dict contains every identifier field and option passed. "
        "A class = (model, type, status/action, sub-type). Concurrent slice: in a fresh interpreter 2-8 threads decode and re-encode the same "
        "wire dictionaries at once (first use, LINE-level yield injection in lambda_service.py/execution.py); every thread's result must equal "
        "the sequential one.")

if __name__ == "__main__":
    sys.exit(harness.main_for("checks.c20", PROP, "exploration", RULE,
                              ["the normal form N is the only equality relaxation; error objects are generated with at least one field set",
                               "an entirely empty WaitDetails/ChainedInvokeDetails object is treated as equal to an absent one (no protocol field is carried)"],
                              {"operations_checked": 5000, "updates_checked": 5000, "factory_calls_checked": 500, "insitu_contract_evaluations_update_to_dict": 300,
                               "concurrent_trials": 10}))
