"""C03 world check (see DESIGN.md section 2, C03)."""
from checks.worldcheck import Spec, replayed_delivery

PROP = "C03"
SPEC = Spec(
    PROP,
    level="exploration",
    rule="random programs (all nine operation kinds, nesting<=3) x {uninterrupted with random pagination/latency, every single "
    "crash point of a small-program corpus, random multi-crash, asynchronous SIGKILL, yield injection}; every ret/exc delivered to user code and every PENDING outcome is checked, at the instant the single-threaded parent receives it, against the backend table (terminal record / armed wake source / EXECUTION record). Non-trivial = at least one delivery was checked. "
    "A class = (program shape hash, interruption pattern, event kind at which the crash landed).",
    deciding=lambda r: True,
)
cases = SPEC.cases
run_case = SPEC.run_case
if __name__ == "__main__":
    SPEC.main("checks.c03")
