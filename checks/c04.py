"""C04 - at-most-once steps start their function at most once per attempt."""
from checks.worldcheck import Spec

PROP = "C04"


def explicit(tier, seed):
    # hand-written corpus: at-most-once steps with every strategy kind, crash points enumerated exhaustively
    strategies = [
        None,
        {"kind": "preset", "name": "none"},
        {"decisions": [("retry", 1), ("retry", 2), ("stop",)]},
        {"kind": "config", "cfg": {"max_attempts": 3, "initial_delay": 1, "max_delay": 2, "jitter": "NONE"}},
    ]
    scripts = [
        [{"do": "ok", "val": 1}],
        [{"do": "fail", "cls": "ValueError", "msg": "a"}, {"do": "ok", "val": 2}],
        [{"do": "fail", "cls": "ValueError", "msg": "a"}, {"do": "fail", "cls": "ValueError", "msg": "b"}, {"do": "ok", "val": 3}],
        [{"do": "fail", "cls": "ValueError", "msg": "always"}],
    ]
    i = 0
    for st in strategies:
        for sc in scripts:
            for wrap in (False, True):
                step = {"k": "step", "script": sc, "retry": st, "sem": "most"}
                body = [{"k": "step", "val": 0}, {"k": "try", "body": step, "catch": "*"}, {"k": "step", "val": 9, "sem": "most"}]
                if wrap:
                    body = [{"k": "par", "branches": [{"body": body}, {"body": [{"k": "wait", "s": 1}]}], "cfg": {"preset": "all_completed"}}]
                yield {"label": "amo-corpus", "prog": {"body": body}, "prog_seed": 1000 + i, "pattern": {"p": "crash_enum"}}
                i += 1


def lag_cases(tier, seed):
    """The service acts on a due retry timer a little late: a branch resumed in-process at the scheduled time still finds its step
    PENDING. A sibling branch keeps the block running, so the retry is driven by the in-process timer, not by a new invocation."""
    i = 0
    for lag in (0.3, 1.0, 2.5):
        for kind in ("par", "map"):
            for nfail in (1, 2):
                script = [{"do": "fail", "cls": "ValueError", "msg": "f%d" % k} for k in range(nfail)] + [{"do": "ok", "val": 7}]
                retry = {"decisions": [("retry", 1)] * nfail + [("stop",)]}
                b0 = {"body": [{"k": "step", "script": script, "retry": retry, "sem": "most"}, {"k": "step", "val": "next", "sem": "most"}]}
                b1 = {"body": [{"k": "step", "script": [{"do": "ok", "val": "busy", "gate": "busy"}]}]}
                node = {"k": "par", "branches": [b0, b1], "cfg": None} if kind == "par" else {"k": "map", "items": [0, 1], "per_item": [b0, b1], "body": [], "cfg": None}
                holds = [{"match": {"kind": "gate", "name": "busy"}, "until": {"any": [{"applied": {"Name": "0/b0/0", "Type": "STEP", "Action": "SUCCEED"}},
                                                                                    {"applied": {"Name": "0/b0/0", "Type": "STEP", "Action": "FAIL"}}]}}]
                yield {"label": "late-timer-in-process-retry", "prog": {"body": [node, {"k": "step", "val": "end"}]}, "prog_seed": 1500 + i,
                       "pattern": {"p": "crash_enum"}, "holds": holds, "world": {"complete": {}, "timers": "all", "timer_lag": lag},
                       "opts": {"idle_s": 0.8, "hang_s": 4.0}, "max_inv": 14}
                i += 1


def fault_cases(tier, seed):
    """A checkpoint call fails (answered at once, or kept in flight while sibling branches queue their own blocking STARTs behind
    it): no at-most-once function may be entered for an attempt whose START the backend never accepted, in this invocation or in the
    retried one."""
    err = {"kind": "client", "status": 500, "code": "ServiceException", "message": "boom"}
    i = 0
    for nb in (2, 3):
        brs = [{"body": [{"k": "step", "val": b, "sem": "most"}, {"k": "step", "script": [{"do": "fail", "cls": "ValueError", "msg": "x"}, {"do": "ok", "val": 1}],
                                                                   "retry": {"decisions": [("retry", 1), ("stop",)]}, "sem": "most"}]} for b in range(nb)]
        # the last branch reaches its first at-most-once step only once the failing call is in flight: its blocking START is queued
        # behind that call, never sent, and must be answered with the failure
        brs[-1] = {"body": [{"k": "gate", "name": "late"}] + brs[-1]["body"]}
        for kind in ("par", "map"):
            node = {"k": "par", "branches": brs, "cfg": {"preset": "all_completed"}} if kind == "par" else \
                {"k": "map", "items": list(range(nb)), "per_item": brs, "body": [], "cfg": None}
            body = [{"k": "step", "val": 0, "sem": "most"}, node, {"k": "step", "val": 9, "sem": "most"}]
            for k in range(1, 9 if tier == "quick" else 14):
                for delay in ((0, 30) if tier != "quick" or k % 2 else (30,)):
                    yield {"label": "amo-checkpoint-failure", "prog": {"body": body}, "prog_seed": 1700 + i, "pattern": {"p": "plain"}, "max_inv": 14, "max_raises": 3,
                           "faults": [{"match": {"op": "checkpoint", "n": k}, "err": err if i % 2 else dict(err, status=400, code="ValidationException"), "when": "before", "delay_ms": delay}],
                           "latency_ms": (1, 4) if delay else None, "opts": {"hang_s": 3.0, "idle_s": 0.5},
                           "holds": [{"match": {"kind": "gate", "name": "late"}, "until": {"event": {"kind": "api", "has": "fault", "this_inv": False}}, "delay_ms": 3}]}
                    i += 1


def warm_and_skew_cases(tier, seed):
    """(a) an attempt is interrupted WITHOUT the process dying (the call carrying its outcome fails, the invocation raises, Lambda
    retries it in the same warm sandbox): nothing remembered in the process may make the retried invocation take the leftover START
    for its own; (b) the service's clock runs ahead of / behind the function host's while invocations crash and are retried at once."""
    err = {"kind": "client", "status": 400, "code": "ValidationException", "message": "bad request"}  # classified "raise": Lambda retries the invocation
    i = 0
    seq = [{"k": "step", "val": 1, "sem": "most"}, {"k": "step", "script": [{"do": "fail", "cls": "ValueError", "msg": "x"}, {"do": "ok", "val": 2}],
                                                    "retry": {"decisions": [("retry", 1), ("stop",)]}, "sem": "most"}, {"k": "step", "val": 3, "sem": "most"}]
    par = [{"k": "par", "branches": [{"body": [{"k": "step", "val": b, "sem": "most"}, {"k": "step", "val": b + 10, "sem": "most"}]} for b in range(2)], "cfg": {"preset": "all_completed"}}]
    for body in (seq, par):
        for k in range(1, 7 if tier == "quick" else 10):
            for when in ("before", "after"):
                yield {"label": "amo-outcome-lost-warm-sandbox", "prog": {"body": body}, "prog_seed": 1800 + i, "pattern": {"p": "plain"}, "max_inv": 14, "max_raises": 4,
                       "faults": [{"match": {"op": "checkpoint", "n": k}, "err": err, "when": when}], "opts": {"warm": True, "hang_s": 3.0}}
                i += 1
    # the service reports a step that has not retried yet WITHOUT a StepDetails member (an all-default structure left out)
    for body in (seq, par):
        yield {"label": "amo-lean-step-details", "prog": {"body": body}, "prog_seed": 1840 + i, "pattern": {"p": "crash_enum"}, "max_inv": 16,
               "world": {"complete": {}, "timers": "all", "lean_step_details": True}}
        i += 1
    for skew in (3.0, 30.0, -3.0):
        for body in (seq, par):
            yield {"label": "amo-clock-skew", "prog": {"body": body}, "prog_seed": 1850 + i, "pattern": {"p": "crash_enum"}, "max_inv": 16,
                   "world": {"complete": {}, "timers": "all", "clock_skew": skew}}
            i += 1


def unreadable_result_cases(tier, seed):
    """An at-most-once step that completed, replayed when its recorded result cannot be read back (custom serdes, store down or a
    newer deployment): the invocation may fail, the step function must not be entered again for the attempt that completed."""
    i = 0
    for shape in ("top", "branch", "child"):
        for retry in (None, {"decisions": [("retry", 1), ("stop",)]}):
            step = {"k": "step", "val": {"status": "CHARGED"}, "sem": "most", "serdes": "outage"}
            if retry:
                step["script"] = [{"do": "fail", "cls": "ValueError", "msg": "first attempt"}, {"do": "ok"}]
                step["retry"] = retry
            body = [step, {"k": "wait", "s": 1}, {"k": "step", "val": "after"}, {"k": "wait", "s": 1}, {"k": "step", "val": "end"}]
            if shape == "branch":
                body = [{"k": "par", "branches": [{"body": body}, {"body": [{"k": "step", "val": 1}]}], "cfg": {"preset": "all_completed"}}]
            elif shape == "child":
                body = [{"k": "child", "body": body}]
            yield {"label": "c04-unreadable-result|%s|%s" % (shape, "retried" if retry else "first"), "prog": {"body": body}, "prog_seed": 27900 + i,
                   "pattern": {"p": "plain"}, "world": {"complete": {}, "timers": "all"}, "max_inv": 8, "max_raises": 2}
            i += 1


def explicit_all(tier, seed):
    yield from explicit(tier, seed)
    yield from unreadable_result_cases(tier, seed)
    yield from lag_cases(tier, seed)
    yield from fault_cases(tier, seed)
    yield from warm_and_skew_cases(tier, seed)


SPEC = Spec(
    PROP,
    level="fault_enumeration",
    gen={"kinds": ["step", "rstep", "rstep", "fstep", "wait", "child", "par", "map"], "most": 1.0},
    explicit=explicit_all,
    quick={"plain": 30, "enum": 10, "rand": 20, "async": 16},
    thorough={"plain": 200, "enum": 120, "rand": 300, "async": 200, "perturb": 60, "k1": 8},
    rule="at-most-once steps (strategies: SDK default / none / scripted k retries / packaged config) x failure scripts (succeed, "
    "fail-k-then-succeed, always fail), at top level and inside parallel branches x EVERY single crash point of the execution "
    "(before/after each API call, at every probe event incl. function entry/exit), plus random programs with random multi-crash and "
    "asynchronous SIGKILL; plus retries driven by the in-process timer of a map/parallel whose sibling branch is still running while the service acts on the due timer 0.3-2.5 s late (the refreshed state still says PENDING); plus a failing checkpoint call at each of the first 8-13 call positions of map/parallel blocks of at-most-once steps, answered at once or kept in flight 30 ms while sibling STARTs queue up behind it; the same failures (request or response lost) in a warm sandbox, where the retried invocation runs in the same process; every crash point with the service clock 3 s / 30 s ahead of or 3 s behind the host clock. Oracle: step-function entries keyed by (position, backend Attempt counter at entry) occur at most once, "
    "and at entry the backend holds the step STARTED. Non-trivial = an at-most-once step function was entered. "
    "A class = (program shape hash, interruption pattern, crash landing event kind).",
    deciding=lambda r: (r.get("stats") or {}).get("c04_entries", 0) > 0,
    minima={"c04_entries": 300},
)
cases = SPEC.cases
run_case = SPEC.run_case
if __name__ == "__main__":
    SPEC.main("checks.c04")
