"""C04 - at-most-once steps start their function at most once per attempt."""
from checks.worldcheck import Spec

PROP = "C04"


def explicit(tier, seed):
    # hand-written corpus: at-most-once steps with every strategy kind, crash points enumerated exhaustively
    strategies = [
        None,
        {"kind": "preset", "name": "none"},
        {"decisions": [("retry", 1), ("retry", 2), ("stop",)]},
        {"kind": "config", "cfg": {"max_attempts": 3, "initial_delay": 1, "max_delay": 2, "jitter": "NONE"}},
    ]
    scripts = [
        [{"do": "ok", "val": 1}],
        [{"do": "fail", "cls": "ValueError", "msg": "a"}, {"do": "ok", "val": 2}],
        [{"do": "fail", "cls": "ValueError", "msg": "a"}, {"do": "fail", "cls": "ValueError", "msg": "b"}, {"do": "ok", "val": 3}],
        [{"do": "fail", "cls": "ValueError", "msg": "always"}],
    ]
    i = 0
    for st in strategies:
        for sc in scripts:
            for wrap in (False, True):
                step = {"k": "step", "script": sc, "retry": st, "sem": "most"}
                body = [{"k": "step", "val": 0}, {"k": "try", "body": step, "catch": "*"}, {"k": "step", "val": 9, "sem": "most"}]
                if wrap:
                    body = [{"k": "par", "branches": [{"body": body}, {"body": [{"k": "wait", "s": 1}]}], "cfg": {"preset": "all_completed"}}]
                yield {"label": "amo-corpus", "prog": {"body": body}, "prog_seed": 1000 + i, "pattern": {"p": "crash_enum"}}
                i += 1


SPEC = Spec(
    PROP,
    level="fault_enumeration",
    gen={"kinds": ["step", "rstep", "rstep", "fstep", "wait", "child", "par", "map"], "most": 1.0},
    explicit=explicit,
    quick={"plain": 30, "enum": 10, "rand": 20, "async": 16},
    thorough={"plain": 200, "enum": 120, "rand": 300, "async": 200, "perturb": 60, "k1": 8},
    rule="at-most-once steps (strategies: SDK default / none / scripted k retries / packaged config) x failure scripts (succeed, "
    "fail-k-then-succeed, always fail), at top level and inside parallel branches x EVERY single crash point of the execution "
    "(before/after each API call, at every probe event incl. function entry/exit), plus random programs with random multi-crash and "
    "asynchronous SIGKILL. Oracle: step-function entries keyed by (position, backend Attempt counter at entry) occur at most once, "
    "and at entry the backend holds the step STARTED. Non-trivial = an at-most-once step function was entered. "
    "A class = (program shape hash, interruption pattern, crash landing event kind).",
    deciding=lambda r: (r.get("stats") or {}).get("c04_entries", 0) > 0,
    minima={"c04_entries": 300},
)
cases = SPEC.cases
run_case = SPEC.run_case
if __name__ == "__main__":
    SPEC.main("checks.c04")
