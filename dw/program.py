"""Program utilities and seeded random program generator (DESIGN §1.3)."""
from __future__ import annotations

import datetime as _dt
import random
import uuid
from decimal import Decimal

OPKINDS = ("step", "wait", "cb", "wfcb", "invoke", "wfc", "child", "par", "map")


def walk(body, prefix=""):
    """Yield (path, node) for every node, mirroring Interp's path scheme."""
    for i, node in enumerate(body):
        path = "%s%d" % (prefix, i)
        yield from _walk_node(node, path)


def _walk_node(node, path):
    k = node["k"]
    if k == "try":
        yield from _walk_node(node["body"], path)
        return
    yield path, node
    if k == "child":
        yield from walk(node["body"], path + "/")
    elif k == "par":
        for bi, b in enumerate(node["branches"]):
            yield from walk(b["body"], "%s/b%d/" % (path, bi))
    elif k == "map":
        per = node.get("per_item")
        for bi in range(len(node["items"])):
            yield from walk((per[bi] if per else node)["body"], "%s/b%d/" % (path, bi))
    elif k == "cb":
        yield from walk(node.get("between") or [], path + "/~")
    elif k == "if":
        yield from walk(node["then"], path + "/t")
        yield from walk(node.get("else", []), path + "/e")


def ctx_path(path: str):
    """Path of the context operation that encloses the operation at `path` (None = root)."""
    last = path.rsplit("/", 1)[-1]
    if "@" in last:
        return path[: path.rindex("@")]
    if "/" not in path:
        return None
    owner, last = path.rsplit("/", 1)
    if last[0] in "~te":
        return ctx_path(owner)
    return owner


def count_ops(prog) -> int:
    return sum(1 for _p, n in walk(prog["body"]) if n["k"] in OPKINDS)


# ----------------------------------------------------------------------------- values
def gen_value(rng: random.Random, depth: int = 0, json_only: bool = False):
    """A value from the default serializer's exact round-trip domain (string-keyed dicts only)."""
    leaf = rng.random() < 0.55 or depth >= 3
    if leaf:
        c = rng.randrange(10 if not json_only else 5)
        if c == 0:
            return None
        if c == 1:
            return rng.choice([True, False])
        if c == 2:
            return rng.choice([0, 1, -1, 2**63, -(2**70), rng.randrange(-1000, 1000)])
        if c == 3:
            return rng.choice([0.5, -2.25, 1e300, 3.0, rng.uniform(-10, 10)])
        if c == 4:
            return rng.choice(["", "a", "héllo", "x" * rng.randrange(1, 30), "t", "v"])
        if c == 5:
            return bytes(rng.randrange(256) for _ in range(rng.randrange(0, 6)))
        if c == 6:
            return uuid.UUID(int=rng.getrandbits(128))
        if c == 7:
            return Decimal(rng.choice(["1.10", "-0", "3E+5", "123456789.123456789"]))
        if c == 8:
            return _dt.datetime(2024, rng.randrange(1, 13), rng.randrange(1, 28), rng.randrange(24), 5, 6, rng.randrange(1000000),
                                tzinfo=rng.choice([None, _dt.timezone.utc, _dt.timezone(_dt.timedelta(hours=5, minutes=30))]))
        return _dt.date(2023, rng.randrange(1, 13), rng.randrange(1, 28))
    c = rng.randrange(3 if not json_only else 2)
    n = rng.randrange(0, 4)
    if c == 0:
        return [gen_value(rng, depth + 1, json_only) for _ in range(n)]
    if c == 1:
        return {rng.choice(["a", "b", "t", "v", "k%d" % i]): gen_value(rng, depth + 1, json_only) for i in range(n)}
    return tuple(gen_value(rng, depth + 1, json_only) for _ in range(n))


# ----------------------------------------------------------------------------- random programs
class Gen:
    def __init__(self, rng: random.Random, **kw):
        self.rng = rng
        self.max_ops = kw.get("max_ops", 10)
        self.max_depth = kw.get("max_depth", 3)
        self.kinds = kw.get("kinds") or ["step", "step", "step", "wait", "cb", "wfcb", "invoke", "wfc", "child", "par", "map", "fstep", "rstep"]
        self.allow_fail_ctx = kw.get("allow_fail_ctx", True)
        self.logs = kw.get("logs", False)
        self.ops = 0
        self.most = kw.get("most", 0.25)

    def program(self) -> dict:
        n = self.rng.randrange(2, 6)
        body = self.body(n, 0)
        prog = {"body": body}
        if self.logs:
            prog["logger"] = True
        return prog

    def body(self, n, depth):
        out = []
        for _ in range(n):
            if self.ops >= self.max_ops:
                break
            out.append(self.node(depth))
        if not out:
            self.ops += 1
            out.append({"k": "step", "val": self.rng.randrange(100)})
        return out

    def node(self, depth):  # noqa: C901, PLR0911, PLR0912
        rng = self.rng
        kinds = [k for k in self.kinds if depth < self.max_depth or k not in ("child", "par", "map")]
        k = rng.choice(kinds)
        if k in ("cb", "wfcb", "invoke"):
            if rng.random() < 0.5:
                return {"k": "try", "body": self.node_of(k, depth), "catch": "*"}
            return self.node_of(k, depth)
        self.ops += 1
        sem = "most" if rng.random() < self.most else "least"
        if k == "step":
            n = {"k": "step", "val": gen_value(rng), "sem": sem}
            r = rng.random()
            if r < 0.3:  # equal container payloads in several operations, updated in place by the workflow
                n["val"] = rng.choice([[], {}, [1], {"a": []}, [[]]])
                n["mutate"] = True
            elif r < 0.42:  # a custom serdes: plain JSON, or one that binds the payload to the operation it was written for
                n["val"] = gen_value(rng, json_only=True)
                n["serdes"] = rng.choice(["json", "ctxbound", "ctxbound", "tagged"])
            return n
        if k == "fstep":  # failing step caught by try
            cls = rng.choice(["ValueError", "UserErr", "KeyError"])
            n = {"k": "step", "script": [{"do": "fail", "cls": cls, "msg": rng.choice(["", "m%d" % rng.randrange(10), "m%d" % rng.randrange(10)])}], "sem": sem,
                 "retry": rng.choice([{"kind": "preset", "name": "none"}, {"decisions": [("stop",)]}])}
            return {"k": "try", "body": n, "catch": rng.choice(["*", ["CallableRuntimeError"], ["Exception"]])}
        if k == "fwfc":  # wait_for_condition whose check raises, caught by try
            n = {"k": "wfc", "init": rng.randrange(5), "decisions": [("cont", 1), ("stop",)],
                 "checks": rng.choice([[{"do": "fail", "cls": "UserErr", "msg": "c%d" % rng.randrange(9)}],
                                       [{"do": "ok"}, {"do": "fail", "cls": "ValueError", "msg": "late"}]])}
            return {"k": "try", "body": n, "catch": rng.choice(["*", ["UserErr"], ["CallableRuntimeError"], ["ValueError", "UserErr"]])}
        if k == "rstep":  # fails j times then succeeds
            j = rng.randrange(1, 3)
            script = [{"do": "fail", "cls": "ValueError", "msg": "try%d" % i} for i in range(j)] + [{"do": "ok", "val": gen_value(rng)}]
            return {"k": "step", "script": script, "sem": sem,
                    "retry": {"decisions": [("retry", rng.choice([0, 1, 2]))] * j + [("stop",)]}}
        if k == "wait":
            return {"k": "wait", "s": rng.choice([1, 2, 5])}
        self.ops -= 1
        return self.node_of(k, depth)

    def node_of(self, k, depth):
        rng = self.rng
        self.ops += 1
        if k == "cb":
            between = []
            if rng.random() < 0.5 and self.ops < self.max_ops:
                self.ops += 1
                between = [{"k": "step", "val": rng.randrange(10)}]
            return {"k": "cb", "between": between}
        if k == "wfcb":
            return {"k": "wfcb"}
        if k == "invoke":
            return {"k": "invoke", "fn": "fn%d" % rng.randrange(3), "payload": gen_value(rng, json_only=True),
                    "cfg": rng.choice([None, {"timeout": 30}])}
        if k == "wfc":
            n = rng.randrange(1, 4)
            return {"k": "wfc", "init": rng.randrange(5), "decisions": [("cont", rng.choice([0, 1, 3]))] * (n - 1) + [("stop",)]}
        if k == "child":
            return {"k": "child", "body": self.body(rng.randrange(1, 4), depth + 1)}
        if k == "par":
            nb = rng.randrange(1, 4)
            return {"k": "par", "branches": [{"body": self.body(rng.randrange(1, 3), depth + 1)} for _ in range(nb)],
                    "cfg": rng.choice([None, {"max_conc": 1}, {"max_conc": 2}, {"preset": "all_completed"}])}
        if k == "map":
            ni = rng.randrange(1, 4)
            return {"k": "map", "items": [rng.randrange(10) for _ in range(ni)], "body": self.body(rng.randrange(1, 3), depth + 1),
                    "cfg": rng.choice([None, {"max_conc": 1}, {"max_conc": 2}])}
        raise AssertionError(k)


def default_world(prog: dict, rng: random.Random, det: bool = False) -> dict:
    """World script: how external parties answer callbacks and invokes.
    det=True: externals inside map/parallel branches always succeed (keeps BatchResults schedule-independent)."""
    comp = {}
    for path, n in walk(prog["body"]):
        if n["k"] in ("cb", "wfcb", "invoke"):
            st = rng.choice(["SUCCEEDED"] * 4 + ["FAILED"])
            if det and "/b" in path:
                st = "SUCCEEDED"
            if n["k"] == "invoke":
                res = '{"r": %d}' % rng.randrange(100)
            else:
                res = rng.choice(['"payload"', "plain text", '{"a": [1, 2]}'])
            rule = {"when": rng.choice(["between", "between", "immediate", "after_pendings"]), "status": st}
            if st == "SUCCEEDED":
                rule["result"] = res
            else:
                rule["error"] = {"ErrorMessage": "ext failed %s" % path, "ErrorType": "ExtErr"}
            comp[path] = rule
    return {"complete": comp, "timers": rng.choice(["one", "all"])}
