"""C10 - nothing is recorded under a context after that context has completed."""
import random

from checks.worldcheck import Spec

PROP = "C10"

NEXT_OPS = {
    "step": {"k": "step", "val": "new"},
    "step-most": {"k": "step", "val": "new", "sem": "most"},
    "wait": {"k": "wait", "s": 1},
    "cb": {"k": "cb"},
    "invoke": {"k": "invoke", "fn": "f", "payload": 1, "cfg": {"timeout": 30}},
    "wfc": {"k": "wfc", "init": 0, "decisions": [("stop",)]},
    "child": {"k": "child", "body": [{"k": "step", "val": "inner"}]},
    "par": {"k": "par", "branches": [{"body": [{"k": "step", "val": "p0"}]}, {"body": [{"k": "step", "val": "p1"}]}]},
    "map": {"k": "map", "items": [1], "body": [{"k": "step", "val": "m"}]},
    "wfcb": {"k": "wfcb"},
}


def scenario(kind, depth, position, nextop, early, rng, put_hold=False):
    """One early-completing map/parallel with a surviving branch gated relative to the parent's completion record."""
    P = "0"
    if position == "inside-function":
        surv = [{"k": "step", "script": [{"do": "ok", "val": "s", "gate": "surv"}]}, dict(NEXT_OPS[nextop])]
    elif position == "between-operations":
        surv = [{"k": "step", "val": "s"}, {"k": "gate", "name": "surv"}, dict(NEXT_OPS[nextop])]
    else:  # first operation of the branch is started after the parent completed
        surv = [{"k": "gate", "name": "surv"}, dict(NEXT_OPS[nextop]), {"k": "step", "val": "tail"}]
    for _ in range(depth - 1):
        surv = [{"k": "child", "body": surv}]
    decider = [{"k": "step", "val": "fast"}] if early != "tolerance" else [{"k": "step", "script": [{"do": "fail", "cls": "ValueError", "msg": "x"}], "retry": {"kind": "preset", "name": "none"}}]
    cfg = {"preset": "first_successful"} if early == "min" else ({"tol_n": 0} if early == "tolerance" else {"min_ok": 1, "tol_n": 3})
    brs = [{"body": decider}, {"body": surv}]
    if rng.random() < 0.4:
        brs.append({"body": [{"k": "step", "script": [{"do": "ok", "val": "third", "gate": "surv2"}]}, {"k": "step", "val": "third-next"}]})
    if kind == "par":
        node = {"k": "par", "branches": brs, "cfg": cfg}
    else:
        node = {"k": "map", "items": list(range(len(brs))), "per_item": brs, "body": [], "cfg": cfg}
    body = [node, {"k": "gate", "name": "main-hold"}, {"k": "step", "val": "end"}]
    done_cond = {"applied": {"Name": P, "Type": "CONTEXT", "Action": "SUCCEED"}}
    holds = [
        {"match": {"kind": "gate", "name": "surv"}, "until": done_cond, "delay_ms": rng.choice([0, 0, 2])},
        {"match": {"kind": "gate", "name": "surv2"}, "until": done_cond},
        # keep the invocation alive until the orphan has been stopped (or the idle rule releases it)
        {"match": {"kind": "gate", "name": "main-hold"}, "until": {"event": {"kind": "fn_exit", "fnkind": "branch", "path": "0/b1"}}},
    ]
    opts = {"idle_s": 0.5, "hang_s": 3.0}
    if put_hold:
        # check-then-put window: hold the survivor's enqueue of an already registered operation until the parent's completion is applied
        opts["targeted"] = [{"kind": "queue_put", "match": {"action": "SUCCEED", "type": "STEP"}}]
        holds.insert(0, {"match": {"kind": "gate", "name_re": r"^put:STEP:SUCCEED:0/b1"}, "until": done_cond})
        holds = [h for h in holds if h["match"].get("name") != "surv"]
    return {"body": body}, holds, opts


def explicit(tier, seed):
    rng = random.Random(seed)
    i = 0
    combos = []
    for kind in ("par", "map"):
        for depth in (1, 2, 3):
            for position in ("inside-function", "between-operations", "first-operation"):
                for nextop in NEXT_OPS:
                    for early in ("min", "tolerance", "min+tol"):
                        combos.append((kind, depth, position, nextop, early))
    rng.shuffle(combos)
    if tier == "quick":
        combos = combos[:150]
    for kind, depth, position, nextop, early in combos:
        prog, holds, opts = scenario(kind, depth, position, nextop, early, rng)
        if i % 6 == 0:
            opts["perturb"] = {"p": 0.03, "seed": i}
        yield {"label": "%s|d%d|%s|%s|%s" % (kind, depth, position, nextop, early), "prog": prog, "prog_seed": 19000 + i, "pattern": {"p": "plain"},
               "holds": holds, "opts": opts, "max_inv": 12}
        i += 1
    for j in range(10 if tier == "quick" else 80):
        kind, depth, position, nextop, early = rng.choice(["par", "map"]), rng.choice([1, 2]), "inside-function", "step", "min"
        prog, holds, opts = scenario(kind, depth, position, nextop, early, rng, put_hold=True)
        yield {"label": "check-then-put|%s|d%d" % (kind, depth), "prog": prog, "prog_seed": 19500 + j, "pattern": {"p": "plain"}, "holds": holds,
               "opts": opts, "max_inv": 12}


def inflight_cases(tier, seed):
    """The parent's completion record is in flight (sent, response held) while a branch that has not recorded anything yet
    issues its first update; and large descendant updates queued just before an early completion under a slow backend."""
    rng = random.Random(seed + 99)
    done_arrived = {"event": {"kind": "api", "has_update": {"Name": "0", "Type": "CONTEXT", "Action": "SUCCEED"}}}
    for j in range(10 if tier == "quick" else 80):
        kind = rng.choice(["par", "map"])
        brs = [{"body": [{"k": "step", "val": "fast"}]}, {"body": [{"k": "step", "val": "late"}, {"k": "step", "val": "later"}]}]
        node = {"k": "par", "branches": brs, "cfg": {"preset": "first_successful"}} if kind == "par" else \
            {"k": "map", "items": [0, 1], "per_item": brs, "body": [], "cfg": {"min_ok": 1}}
        bname = "parallel-branch-1" if kind == "par" else "map-item-1"
        holds = [
            {"match": {"kind": "gate", "name": "qop:CONTEXT:START:" + bname}, "until": done_arrived},
            {"match": {"kind": "api", "has_update": {"Name": "0", "Type": "CONTEXT", "Action": "SUCCEED"}}, "until": {"never": True}},
            {"match": {"kind": "gate", "name": "main-hold"}, "until": {"never": True}},
        ]
        yield {"label": "completion-in-flight|" + kind, "prog": {"body": [node, {"k": "gate", "name": "main-hold"}, {"k": "step", "val": "end"}]},
               "prog_seed": 19700 + j, "pattern": {"p": "plain"}, "holds": holds, "max_inv": 8,
               "opts": {"idle_s": 0.35, "hang_s": 3.0, "targeted": [{"kind": "qop_gate", "match": {"type": "CONTEXT", "action": "START", "name_re": "^" + bname + "$"}}]}}
    for j in range(16 if tier == "quick" else 100):
        nb = rng.choice([4, 5, 6])
        brs = [{"body": [{"k": "step", "script": [{"do": "ok", "big": rng.choice([200, 250, 300]) * 1024}]}, {"k": "step", "val": b}]} for b in range(nb)]
        if j % 2:
            # a small, fast decider: the parent completes while the siblings' large records are still queued behind a slow call
            brs[0] = {"body": [{"k": "step", "val": "decider"}]}
        node = {"k": "par", "branches": brs, "cfg": {"min_ok": rng.choice([1, 2]) if j % 2 == 0 else 1}}
        holds = [{"match": {"kind": "gate", "name": "main-hold"}, "until": {"never": True}}]
        if j % 4 == 1:
            # the siblings' large results are produced exactly while the call carrying the decider branch's completion is in flight,
            # so they are queued in front of the parent's completion record that follows
            decided = {"Name": "parallel-branch-0", "Type": "CONTEXT", "Action": "SUCCEED"}
            for b in range(1, nb):
                brs[b]["body"][0]["script"][0]["gate"] = "big"
            holds = [{"match": {"kind": "gate", "name": "big"}, "until": {"event": {"kind": "api", "has_update": decided}}},
                     {"match": {"kind": "api", "has_update": decided}, "delay_ms": 120}] + holds
        yield {"label": "big-updates-before-early-completion", "prog": {"body": [node, {"k": "gate", "name": "main-hold"}, {"k": "step", "val": "end"}]},
               "prog_seed": 19800 + j, "pattern": {"p": "plain"}, "latency_ms": rng.choice([(10, 30), (20, 60), (40, 90)]), "max_inv": 8,
               "holds": holds, "opts": {"idle_s": 0.4, "hang_s": 3.0}}


def resumed_cases(tier, seed):
    """The early completion happens in a LATER invocation: the branch contexts are already STARTED in the history, so they send
    no START (nothing registers them under their parent) before the parent completes."""
    rng = random.Random(seed + 7)
    combos = [(k, d, n) for k in ("par", "map") for d in (1, 2) for n in NEXT_OPS]
    rng.shuffle(combos)
    for j, (kind, depth, nextop) in enumerate(combos[: 14 if tier == "quick" else len(combos)]):
        surv = [{"k": "wait", "s": 1}, {"k": "gate", "name": "surv"}, dict(NEXT_OPS[nextop]), {"k": "step", "val": "tail"}]
        for _ in range(depth - 1):
            surv = [{"k": "child", "body": surv}]
        brs = [{"body": [{"k": "wait", "s": 1}, {"k": "step", "val": "fast"}]}, {"body": surv}]
        cfg = {"min_ok": 1}
        node = {"k": "par", "branches": brs, "cfg": cfg} if kind == "par" else {"k": "map", "items": [0, 1], "per_item": brs, "body": [], "cfg": cfg}
        done_cond = {"applied": {"Name": "0", "Type": "CONTEXT", "Action": "SUCCEED"}}
        holds = [{"match": {"kind": "gate", "name": "surv"}, "until": done_cond},
                 {"match": {"kind": "gate", "name": "main-hold"}, "until": {"event": {"kind": "fn_exit", "fnkind": "branch", "path": "0/b1"}}}]
        yield {"label": "resumed|%s|d%d|%s" % (kind, depth, nextop), "prog": {"body": [node, {"k": "gate", "name": "main-hold"}, {"k": "step", "val": "end"}]},
               "prog_seed": 19900 + j, "pattern": {"p": "plain"}, "holds": holds, "opts": {"idle_s": 0.5, "hang_s": 3.0}, "max_inv": 12,
               "world": {"complete": {}, "timers": "all"}}


def more_cases(tier, seed):
    """(a) resumed invocation, the survivor is INSIDE an operation it started in this invocation when the parent completes (the
    operation is known, its next record must still be refused); (b) the parent is recorded FAILED while a branch is alive: the
    block was decided early and its result could not be serialized (items need the item serdes, the block has no serdes of its own)."""
    rng = random.Random(seed + 13)
    j = 0
    for kind in ("par", "map"):
        for depth in (1, 2):
            for inner in ("step", "step-most", "wfc"):
                op = {"step": {"k": "step", "script": [{"do": "ok", "val": "s", "gate": "surv"}]},
                      "step-most": {"k": "step", "script": [{"do": "ok", "val": "s", "gate": "surv"}], "sem": "most"},
                      "wfc": {"k": "wfc", "init": 0, "checks": [{"do": "ok", "gate": "surv"}], "decisions": [("stop",)]}}[inner]
                surv = [{"k": "wait", "s": 1}, op, {"k": "step", "val": "tail"}]
                for _ in range(depth - 1):
                    surv = [{"k": "child", "body": surv}]
                brs = [{"body": [{"k": "wait", "s": 1}, {"k": "step", "val": "fast"}]}, {"body": surv}]
                node = {"k": "par", "branches": brs, "cfg": {"min_ok": 1}} if kind == "par" else {"k": "map", "items": [0, 1], "per_item": brs, "body": [], "cfg": {"min_ok": 1}}
                done_cond = {"applied": {"Name": "0", "Type": "CONTEXT", "Action": "SUCCEED"}}
                yield {"label": "resumed-inside-operation|%s|d%d|%s" % (kind, depth, inner), "prog": {"body": [node, {"k": "gate", "name": "main-hold"}, {"k": "step", "val": "end"}]},
                       "prog_seed": 19950 + j, "pattern": {"p": "plain"}, "max_inv": 12, "world": {"complete": {}, "timers": "all"},
                       "holds": [{"match": {"kind": "gate", "name": "surv"}, "until": done_cond, "delay_ms": rng.choice([0, 3])},
                                 {"match": {"kind": "gate", "name": "main-hold"}, "until": {"event": {"kind": "fn_exit", "fnkind": "branch", "path": "0/b1"}}}],
                       "opts": {"idle_s": 0.5, "hang_s": 3.0}}
                j += 1
    # resumed invocation, the survivor opens a NEW nested context (registered in this invocation) before its block completes, and starts
    # operations inside that context afterwards
    for kind in ("par", "map"):
        for nextop in ("step", "wait", "child", "wfc"):
            surv = [{"k": "wait", "s": 1}, {"k": "child", "body": [{"k": "step", "val": "in0"}, {"k": "gate", "name": "surv"}, dict(NEXT_OPS[nextop]), {"k": "step", "val": "tail"}]}]
            brs = [{"body": [{"k": "wait", "s": 1}, {"k": "step", "val": "fast"}]}, {"body": surv}]
            node = {"k": "par", "branches": brs, "cfg": {"min_ok": 1}} if kind == "par" else {"k": "map", "items": [0, 1], "per_item": brs, "body": [], "cfg": {"min_ok": 1}}
            done_cond = {"applied": {"Name": "0", "Type": "CONTEXT", "Action": "SUCCEED"}}
            yield {"label": "resumed-new-nested-context|%s|%s" % (kind, nextop), "prog": {"body": [node, {"k": "gate", "name": "main-hold"}, {"k": "step", "val": "end"}]},
                   "prog_seed": 19970 + j, "pattern": {"p": "plain"}, "max_inv": 12, "world": {"complete": {}, "timers": "all"},
                   "holds": [{"match": {"kind": "gate", "name": "surv"}, "until": done_cond, "delay_ms": rng.choice([0, 3])},
                             {"match": {"kind": "gate", "name": "main-hold"}, "until": {"event": {"kind": "fn_exit", "fnkind": "branch", "path": "0/b1"}}}],
                   "opts": {"idle_s": 0.5, "hang_s": 3.0}}
            j += 1
    for kind in ("par", "map"):
        for position in ("inside-function", "between-operations", "first-operation"):
            for nextop in ("step", "wait", "child", "cb"):
                if position == "inside-function":
                    surv = [{"k": "step", "script": [{"do": "ok", "val": "s", "gate": "surv"}]}, dict(NEXT_OPS[nextop])]
                elif position == "between-operations":
                    surv = [{"k": "step", "val": "s"}, {"k": "gate", "name": "surv"}, dict(NEXT_OPS[nextop])]
                else:
                    surv = [{"k": "gate", "name": "surv"}, dict(NEXT_OPS[nextop]), {"k": "step", "val": "tail"}]
                brs = [{"body": [{"k": "step", "val": "fast"}], "result": {"exotic": True}}, {"body": surv}]
                cfg = {"min_ok": 1, "item_serdes": "exotic"}
                node = {"k": "par", "branches": brs, "cfg": cfg} if kind == "par" else {"k": "map", "items": [0, 1], "per_item": brs, "body": [], "cfg": cfg}
                failed = {"applied": {"Name": "0", "Type": "CONTEXT", "Action": "FAIL"}}
                yield {"label": "parent-recorded-failed|%s|%s|%s" % (kind, position, nextop),
                       "prog": {"body": [{"k": "try", "body": node, "catch": "*"}, {"k": "gate", "name": "main-hold"}, {"k": "step", "val": "end"}]},
                       "prog_seed": 19980 + j, "pattern": {"p": "plain"}, "max_inv": 12,
                       "holds": [{"match": {"kind": "gate", "name": "surv"}, "until": failed, "delay_ms": rng.choice([0, 2])},
                                 {"match": {"kind": "gate", "name": "main-hold"}, "until": {"event": {"kind": "fn_exit", "fnkind": "branch", "path": "0/b1"}}}],
                       "opts": {"idle_s": 0.5, "hang_s": 3.0}}
                j += 1


def nested_retry_cases(tier, seed):
    """The outer block completes early while an inner map/parallel below one of its branches is still running (one inner branch
    keeps it running) and has a branch parked on a retry timer: the inner executor's timer re-submits that branch AFTER the outer
    completion record. The re-submitted attempt (READY: wait_for_condition poll, step retry) must be stopped before its user function."""
    j = 0
    for okind in ("par", "map"):
        for ikind in ("par", "map"):
            for parked in ("wfc", "step-least", "step-most"):
                if parked == "wfc":
                    op = {"k": "wfc", "init": 0, "decisions": [("cont", 1), ("stop",)]}
                else:
                    op = {"k": "step", "script": [{"do": "fail", "cls": "ValueError", "msg": "x"}, {"do": "ok", "val": 7}], "retry": {"decisions": [("retry", 1), ("stop",)]},
                          "sem": "most" if parked == "step-most" else "least"}
                ibrs = [{"body": [op, {"k": "step", "val": "tail"}]}, {"body": [{"k": "step", "script": [{"do": "ok", "val": "keeps-inner-running", "gate": "keep"}]}]}]
                inner = {"k": "par", "branches": ibrs, "cfg": {"preset": "all_completed"}} if ikind == "par" else \
                    {"k": "map", "items": [0, 1], "per_item": ibrs, "body": [], "cfg": None}
                obrs = [{"body": [inner]}, {"body": [{"k": "gate", "name": "fast"}, {"k": "step", "val": "fast"}]}]
                node = {"k": "par", "branches": obrs, "cfg": {"min_ok": 1}} if okind == "par" else {"k": "map", "items": [0, 1], "per_item": obrs, "body": [], "cfg": {"min_ok": 1}}
                parked_path = "0/b0/0/b0/0"
                yield {"label": "resubmitted-under-completed-outer-block|%s|%s|%s" % (okind, ikind, parked),
                       "prog": {"body": [node, {"k": "gate", "name": "main-hold"}, {"k": "step", "val": "end"}]}, "prog_seed": 19700 + j, "pattern": {"p": "plain"},
                       "max_inv": 12, "world": {"complete": {}, "timers": "all"},
                       # the fast outer branch finishes only once the inner branch is parked; the handler and the keeper stay until the
                       # parked branch has been re-submitted and has ended one way or the other
                       "holds": [{"match": {"kind": "gate", "name": "fast"}, "until": {"event": {"kind": "susp", "path": parked_path}}},
                                 {"match": {"kind": "gate", "name": "keep"}, "until": {"event": {"kind": "fn_exit", "fnkind": "branch", "path": "0/b0/0/b0", "count": 2}}},
                                 {"match": {"kind": "gate", "name": "main-hold"}, "until": {"event": {"kind": "fn_exit", "fnkind": "branch", "path": "0/b0/0/b1"}}}],
                       "opts": {"idle_s": 0.6, "hang_s": 4.0}}
                j += 1


def explicit_all(tier, seed):
    yield from explicit(tier, seed)
    yield from nested_retry_cases(tier, seed)
    # oversized (summarised) blocks that completed early with branches still running, then replayed in later invocations: whatever the
    # rebuild does with a branch that is only STARTED in the history, nothing may be recorded under the long-completed block
    from checks.c16 import explicit as c16_cases

    for c in c16_cases(tier, seed):
        if "early-completion" in c["label"]:
            yield dict(c, label="c10-oversized-" + c["label"])
    yield from inflight_cases(tier, seed)
    yield from resumed_cases(tier, seed)
    yield from more_cases(tier, seed)


SPEC = Spec(
    PROP,
    props=["C10"],
    level="exploration",
    explicit=explicit_all,
    quick={"plain": 0, "enum": 0, "rand": 0, "async": 0},
    thorough={"plain": 0, "enum": 0, "rand": 0, "async": 0},
    rule="map/parallel completing early (min_successful reached, failure tolerance exceeded, both configured) x nesting depth 1-3 of the "
    "surviving branch x what the survivor is doing when the parent's completion record has been applied (conductor gates released only "
    "after the backend applied the parent's CONTEXT SUCCEED): inside a user function, between two operations, about to start its first "
    "operation x the next operation it starts (step, at-most-once step, wait, callback, invoke, wait_for_condition, child context, "
    "parallel, map, wait_for_callback); plus the check-then-put window forced by parking the survivor's queue.put of an already "
    "registered operation until the parent's completion is applied; a branch whose very first record is issued while the parent's "
    "completion record is in flight (sent, response held by the conductor); large (200-300 KB) descendant updates queued just before an "
    "early completion under a 10-60 ms backend; yield injection on 1/6; the early completion happening in a later (resumed) invocation, with the survivor about to start an operation or inside one it started in that invocation; the block recorded FAILED (its result could not be serialized) while a branch is alive. The main thread is held after the call "
    "returns so the orphan keeps running inside the same invocation. Oracle: over the applied-update stream no update (for an existing "
    "or a first-time operation) arrives after the completion record of one of its ancestors (ancestry from the ParentId links seen), and "
    "no user function is entered by a call issued after an ancestor's completion was applied. A class = the scenario tuple.",
    deciding=lambda r: (r.get("stats") or {}).get("c10_context_completions", 0) > 0,
    minima={"c10_context_completions": 150, "c10_orphan_aborts": 20},
)
cases = SPEC.cases
run_case = SPEC.run_case
if __name__ == "__main__":
    SPEC.main("checks.c10")
