"""C14 - callbacks and invokes: stable identity, faithful outcome, deferred errors."""
import random

from checks.worldcheck import Spec

PROP = "C14"
ERR = {"ErrorMessage": "external said no", "ErrorType": "ExtErr", "ErrorData": "d", "StackTrace": ["s1"]}


def explicit(tier, seed):
    rng = random.Random(seed)
    i = 0
    whens = ["immediate", "between", "after_pendings", {"api_after_start": 1}, {"api_after_start": 2}]
    cb_status = [("SUCCEEDED", '"str-payload"'), ("SUCCEEDED", "plain text not json"), ("SUCCEEDED", None), ("SUCCEEDED", '{"a": [1, 2, {"b": null}]}'),
                 ("SUCCEEDED", ""), ("SUCCEEDED", "x" * 70000), ("FAILED", None), ("TIMED_OUT", None), ("CANCELLED", None), ("STOPPED", None)]
    inv_status = [("SUCCEEDED", '{"r": 1}'), ("SUCCEEDED", "null"), ("SUCCEEDED", None), ("SUCCEEDED", '"s"'), ("SUCCEEDED", "[" + ",".join(["1"] * 30000) + "]"),
                  ("FAILED", None), ("TIMED_OUT", None), ("STOPPED", None)]
    for kind in ("cb", "wfcb", "invoke"):
        for st, res in (inv_status if kind == "invoke" else cb_status):
            for when in whens:
                for shape in ("top", "branch", "child"):
                    if tier == "quick" and rng.random() < 0.55:
                        continue
                    res_i = res
                    if kind == "cb":
                        node = {"k": "cb", "between": rng.choice([[], [{"k": "step", "val": 5}], [{"k": "step", "val": 1}, {"k": "wait", "s": 1}]]),
                                "cfg": rng.choice([None, {"timeout": 60, "heartbeat": 10}, {"serdes": "json"} if (res and res[0] in '"{[n') else None])}
                    elif kind == "wfcb":
                        node = {"k": "wfcb", "script": rng.choice([None, [{"do": "fail", "cls": "ValueError", "msg": "sub"}, {"do": "ok"}]]),
                                "retry": {"decisions": [("retry", 1), ("stop",)]}}
                        if node["script"] is None:
                            node.pop("retry")
                    else:
                        node = {"k": "invoke", "fn": "target-%d" % rng.randrange(5), "payload": rng.choice([None, "", {"a": 1}, [1, "x"], "é", 0]),
                                "cfg": rng.choice([None, {"timeout": 30}, {"tenant": "tenant-9", "timeout": 5}, {"serdes_payload": "tagged"},
                                                   {"serdes_result": "tagged"}, {"serdes_payload": "tagged", "serdes_result": "utf8json"},
                                                   {"serdes_payload": "utf8json", "serdes_result": "tagged", "tenant": "t"}])}
                        if (node["cfg"] or {}).get("serdes_result") == "tagged" and res is not None:
                            try:
                                __import__("json").loads(res)
                                res_i = "TAG:" + res
                            except ValueError:
                                node["cfg"] = dict(node["cfg"], serdes_result=None)
                    wrapped = {"k": "try", "body": node, "catch": "*"}
                    body = [{"k": "step", "val": "pre"}, wrapped, {"k": "step", "val": "post"}]
                    cpath = "1"
                    if shape == "branch":
                        body = [{"k": "par", "branches": [{"body": body}, {"body": [{"k": "step", "val": 1}]}], "cfg": {"preset": "all_completed"}}]
                        cpath = "0/b0/1"
                    elif shape == "child":
                        body = [{"k": "child", "body": body}]
                        cpath = "0/1"
                    rule = {"when": when, "status": st}
                    if res_i is not None:
                        rule["result"] = res_i
                    if st != "SUCCEEDED":
                        rule["error"] = rng.choice([ERR, {"ErrorMessage": "only message"}, None])
                        if rule["error"] is None:
                            rule.pop("error")
                    world = {"complete": {cpath: rule}, "spurious": rng.choice([0, 0, 1])}
                    pat = {"p": "plain"} if (i % 5 or tier == "quick" and i % 15) else {"p": "crash_enum", "max_points": 20}
                    yield {"label": "ext-%s-%s" % (kind, shape), "prog": {"body": body}, "prog_seed": 9000 + i, "world": world, "pattern": pat}
                    i += 1


def undecodable_cases(tier, seed):
    """The payload an external party delivered cannot be decoded by the configured serdes: that is an error of result(), raised every
    time result() is called, never of create_callback(), and the code between the two runs as on the first invocation."""
    i = 0
    for shape in ("top", "branch", "child"):
        for when in ("immediate", "between", "after_pendings"):
            for between in ([{"k": "step", "val": 1}, {"k": "wait", "s": 1}, {"k": "step", "val": 2}], [{"k": "wait", "s": 1}], []):
                for serdes, res in (("json", "plain text not json"), ("json", '{"truncated": '), ("tagged", '"no tag"'), ("ctxbound", '{"op": "other", "arn": "x", "v": 1}')):
                    node = {"k": "cb", "between": between, "cfg": {"serdes": serdes}}
                    body = [{"k": "step", "val": "pre"}, {"k": "try", "body": node, "catch": "*"}, {"k": "step", "val": "fallback"}, {"k": "wait", "s": 1}, {"k": "step", "val": "post"}]
                    cpath = "1"
                    if shape == "branch":
                        body = [{"k": "par", "branches": [{"body": body}, {"body": [{"k": "step", "val": 1}]}], "cfg": {"preset": "all_completed"}}]
                        cpath = "0/b0/1"
                    elif shape == "child":
                        body = [{"k": "child", "body": body}]
                        cpath = "0/1"
                    if tier == "quick" and i % 3:
                        i += 1
                        continue
                    yield {"label": "undecodable-payload-%s" % shape, "prog": {"body": body}, "prog_seed": 9800 + i, "pattern": {"p": "plain"},
                           "world": {"complete": {cpath: {"when": when, "status": "SUCCEEDED", "result": res}}}}
                    i += 1


def shared_payload_and_lost_response_cases(tier, seed):
    """(a) several invokes / JSON callbacks receive the SAME payload text, the workflow updates each delivered container in place,
    and the execution is replayed (also in a warm process): every delivery must still be the recorded payload; (b) the response to
    the call carrying an invoke / callback START is lost (the service applied it): the START must not go on the wire a second time."""
    i = 0
    for shape in ("top", "branch"):
        for warm in (False, True):
            ops = [{"k": "invoke", "fn": "f%d" % j, "payload": j, "mutate": True} for j in range(2)] + \
                  [{"k": "cb", "cfg": {"serdes": "json"}, "mutate": True}, {"k": "wait", "s": 1}, {"k": "invoke", "fn": "g", "payload": 9, "mutate": True}, {"k": "wait", "s": 1}, {"k": "step", "val": "end"}]
            body = ops if shape == "top" else [{"k": "par", "branches": [{"body": ops}, {"body": [{"k": "step", "val": 1}]}], "cfg": {"preset": "all_completed"}}]
            pre = "" if shape == "top" else "0/b0/"
            comp = {pre + str(k): {"when": "between", "status": "SUCCEEDED", "result": '{"items": ["a"], "n": 1}'} for k in (0, 1, 2, 4)}
            yield {"label": "same-payload-mutated-%s%s" % (shape, "-warm" if warm else ""), "prog": {"body": body}, "prog_seed": 9900 + i, "pattern": {"p": "plain"},
                   "world": {"complete": comp}, "opts": {"warm": warm}, "max_inv": 20}
            i += 1
    lost = [{"kind": "plain", "cls": "TimeoutError", "message": "read timeout"}, {"kind": "plain", "cls": "RuntimeError", "message": "socket closed"},
            {"kind": "client", "status": 400, "code": "ValidationException", "message": "bad request"}]
    for body in ([{"k": "step", "val": 1}, {"k": "invoke", "fn": "f", "payload": {"a": 1}, "cfg": {"timeout": 30}}, {"k": "step", "val": 2}],
                 [{"k": "step", "val": 1}, {"k": "cb"}, {"k": "step", "val": 2}],
                 [{"k": "par", "branches": [{"body": [{"k": "invoke", "fn": "f", "payload": 1}]}, {"body": [{"k": "cb"}]}], "cfg": {"preset": "all_completed"}}]):
        for k in range(1, 5):
            for err in lost:
                if tier == "quick" and (k + i) % 2:
                    i += 1
                    continue
                yield {"label": "start-response-lost", "prog": {"body": body}, "prog_seed": 9950 + i, "pattern": {"p": "plain"}, "max_inv": 14, "max_raises": 4,
                       "faults": [{"match": {"op": "checkpoint", "n": k}, "err": err, "when": "after"}], "opts": {"hang_s": 3.0}}
                i += 1


def big_payload_cases(tier, seed):
    """Delivered payloads above the 256 kB checkpoint limit: the context that awaited them (wait_for_callback, a child context, a
    branch) is recorded as a summary and rebuilt on replay - the awaiting code must see the same payload in every later invocation."""
    i = 0
    big = "y" * (300 * 1024)
    for kind in ("wfcb", "cb", "invoke"):
        for shape in ("top", "child", "branch"):
            for when in ("between", "immediate", {"api_after_start": 1}):
                if tier == "quick" and (i % 3 == 1):
                    i += 1
                    continue
                if kind == "wfcb":
                    node, res = {"k": "wfcb"}, big
                elif kind == "cb":
                    node, res = {"k": "cb", "between": [{"k": "step", "val": 5}]}, big
                else:
                    node, res = {"k": "invoke", "fn": "target-big", "payload": {"a": 1}}, '"%s"' % big
                body = [{"k": "step", "val": "pre"}, {"k": "try", "body": node, "catch": "*"}, {"k": "wait", "s": 1}, {"k": "step", "val": "post"}, {"k": "wait", "s": 1}]
                cpath = "1"
                if shape == "branch":
                    body = [{"k": "par", "branches": [{"body": body}, {"body": [{"k": "step", "val": 1}]}], "cfg": {"preset": "all_completed"}}, {"k": "wait", "s": 1}]
                    cpath = "0/b0/1"
                elif shape == "child":
                    body = [{"k": "child", "body": body[:2]}, {"k": "wait", "s": 1}, {"k": "step", "val": "post"}, {"k": "wait", "s": 1}, {"k": "step", "val": "end"}]
                    cpath = "0/1"
                yield {"label": "ext-big-%s-%s" % (kind, shape), "prog": {"body": body}, "prog_seed": 9700 + i, "pattern": {"p": "plain"}, "max_inv": 14,
                       "world": {"complete": {cpath: {"when": when, "status": "SUCCEEDED", "result": res}}, "timers": "all"}}
                i += 1


def explicit_all(tier, seed):
    yield from explicit(tier, seed)
    yield from big_payload_cases(tier, seed)
    yield from undecodable_cases(tier, seed)
    yield from shared_payload_and_lost_response_cases(tier, seed)


SPEC = Spec(
    PROP,
    level="exploration",
    explicit=explicit_all,
    gen={"kinds": ["cb", "cb", "wfcb", "invoke", "invoke", "step", "wait", "par", "child"]},
    quick={"plain": 60, "enum": 4, "rand": 12, "async": 6},
    thorough={"plain": 500, "enum": 60, "rand": 200, "async": 100, "perturb": 60},
    rule="callback / wait_for_callback / invoke at top level, inside a parallel branch and inside a child context x every terminal status "
    "(SUCCEEDED with JSON, non-JSON, empty, None and 70 kB payloads; FAILED, TIMED_OUT, CANCELLED, STOPPED with full / partial / missing "
    "error objects) x delivery timing (inside the START response, one or two API calls later while the invocation still runs, between "
    "invocations, after spurious re-invocations) x code between create and await x failing/retrying submitters, plus random programs and "
    "crash points. Oracle: create_callback returns the backend-issued id, identical in every invocation, and never raises; result() "
    "suspends exactly while outstanding, returns exactly the delivered payload (pass-through or configured serdes) or raises "
    "CallbackError with the delivered message; invoke sends exactly one START with the serialized payload, target and tenant, suspends "
    "while outstanding, returns the deserialized result or raises the recorded error. Non-trivial = callback/invoke events observed.",
    deciding=lambda r: (r.get("stats") or {}).get("c14_events", 0) > 0,
    minima={"c14_events": 500},
)
cases = SPEC.cases
run_case = SPEC.run_case
if __name__ == "__main__":
    SPEC.main("checks.c14")
