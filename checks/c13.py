"""C13 - wait_for_condition threads its state through polls and stops when told to."""
import copy
import random

from checks.direct_strategies import run_wait_direct
from checks.worldcheck import Spec
from dw.program import gen_value

PROP = "C13"


def explicit(tier, seed):
    n = 3 if tier == "quick" else 30
    for i in range(n):
        yield {"label": "direct-wait-strategy", "direct": "wait", "direct_seed": seed * 1000 + i, "n": 60 if tier == "quick" else 200}
    rng = random.Random(seed + 17)
    i = 0
    for polls in (1, 2, 3, 5):
        for fnk in ("inc", "wrap", "append", "vals", "mutate", "mutate-dict"):
            for serdes in (None, "json", "tagged", "ctxbound"):
                if fnk == "wrap" and serdes is not None:
                    continue  # tuples are outside the JSON serdes' exact domain
                init = {"inc": rng.randrange(5), "wrap": gen_value(rng), "append": [], "vals": gen_value(rng, json_only=serdes is not None),
                        "mutate": ["s"], "mutate-dict": {"a": 0}}[fnk]
                checks = [{"do": "ok", "fn": fnk.split("-")[0]}]
                if fnk == "vals":
                    checks = [{"do": "ok", "val": gen_value(rng, json_only=serdes is not None)} for _ in range(polls)]
                dec = [("cont", rng.choice([0, 1, 2, 30]))] * (polls - 1) + [("stop",)]
                node = {"k": "wfc", "init": init, "checks": checks, "decisions": dec, "serdes": serdes}
                for shape in ("top", "branch"):
                    body = [node, {"k": "step", "val": "after"}]
                    if shape == "branch":
                        body = [{"k": "par", "branches": [{"body": body}, {"body": [{"k": "step", "val": 1}]}]}]
                    pat = {"p": "crash_enum", "max_points": 30 if tier == "quick" else None} if i % 4 == 0 or tier != "quick" else {"p": "plain"}
                    yield {"label": "wfc-corpus-" + shape, "prog": {"body": body}, "prog_seed": 7000 + i, "pattern": pat}
                    i += 1


def initial_and_shared_state_cases(tier, seed):
    """(a) the FIRST poll gets the configured initial state itself, whatever the serdes would make of it (a tuple / int-keyed dict
    with a JSON serdes); (b) several conditions in one process pass through EQUAL states that their checks update in place."""
    i = 0
    for serdes in ("json", "tagged", None):
        for init in ((0, 10), {"window": (0, 10)}, {1: "a"}, [1, (2, 3)]):
            if serdes is None and isinstance(init, dict) and 1 in init:
                continue  # int keys are outside the default serializer's domain
            checks = [{"do": "ok", "val": [1]}, {"do": "ok", "val": {"a": 2}}, {"do": "ok", "val": "done"}]
            node = {"k": "wfc", "init": init, "checks": checks, "decisions": [("cont", 1), ("cont", 1), ("stop",)], "serdes": serdes}
            yield {"label": "wfc-initial-state-as-configured", "prog": {"body": [node, {"k": "step", "val": "after"}]}, "prog_seed": 7950 + i,
                   "pattern": {"p": "crash_enum", "max_points": 10} if i % 3 == 0 else {"p": "plain"}}
            i += 1
    for kind in ("par", "map"):
        for init in ([], {"n": 0}, ["s"]):
            for warm in (False, True):
                br = {"body": [{"k": "wfc", "init": init, "checks": [{"do": "ok", "fn": "mutate"}], "decisions": [("cont", 1), ("cont", 1), ("stop",)]}]}
                node = {"k": "par", "branches": [copy.deepcopy(br) for _ in range(3)], "cfg": {"preset": "all_completed"}} if kind == "par" else \
                    {"k": "map", "items": [0, 1, 2], "body": br["body"], "cfg": None}
                yield {"label": "wfc-equal-states-in-several-branches", "prog": {"body": [node, {"k": "step", "val": "after"}]}, "prog_seed": 7980 + i,
                       "pattern": {"p": "plain"}, "opts": {"warm": warm}}
                i += 1


def explicit_all(tier, seed):
    yield from initial_and_shared_state_cases(tier, seed)
    yield from explicit(tier, seed)
    # a check that fails on poll n with each class of error (incl. the SDK's own "unrecoverable" family, which applications derive
    # from); the workflow catches it, continues and is re-invoked: the failure must be on record, the check never polled again
    i = 0
    for cls in ("UserErr", "ValueError", "ExecutionError", "SerDesError", "InvocationError", "DurableExecutionsError", "CallbackError"):
        for at in (1, 2, 3):
            checks = [{"do": "ok"}] * (at - 1) + [{"do": "fail", "cls": cls, "msg": "gone%d" % at}]
            node = {"k": "wfc", "init": 0, "checks": checks, "decisions": [("cont", 1)] * 5 + [("stop",)]}
            for shape in ("top", "branch"):
                body = [{"k": "try", "body": node, "catch": "*"}, {"k": "step", "val": "compensate"}, {"k": "wait", "s": 1}, {"k": "step", "val": "after"}]
                if shape == "branch":
                    body = [{"k": "par", "branches": [{"body": body}, {"body": [{"k": "step", "val": 1}]}]}]
                yield {"label": "wfc-failing-check-" + shape, "prog": {"body": body}, "prog_seed": 7900 + i,
                       "pattern": {"p": "crash_enum", "max_points": 12} if (tier != "quick" or i % 5 == 0) else {"p": "plain"}}
                i += 1


SPEC = Spec(
    PROP,
    level="fault_enumeration",
    gen={"kinds": ["wfc", "wfc", "wfc", "step", "wait", "par", "map", "child"]},
    explicit=explicit_all,
    direct=run_wait_direct,
    quick={"plain": 40, "enum": 6, "rand": 16, "async": 8},
    thorough={"plain": 300, "enum": 80, "rand": 300, "async": 150, "perturb": 60},
    rule="(a) world runs: wait_for_condition with states over the serializer's domain (ints, nested tuples/Decimals/dicts, lists), "
    "state functions (increment, wrap, append, in-place mutation of a list/dict returning the same object, scripted values; checks failing at poll 1-3 with user and SDK error classes, caught by the workflow), decision scripts (stop at n; delays 0,1,2,30), default/JSON/custom/context-bound "
    "serdes, at top level and inside branches x crash points between polls: poll 1 receives the initial state, poll n+1 receives "
    "exactly what poll n returned, the strategy sees the new state and backend retries+1, continue => RETRY with payload and delay>=1 "
    "applied before suspension, stop => SUCCEED and the call returns the last state, never polled while PENDING; (b) direct: "
    "create_wait_strategy over generated configs with pinned jitter. Non-trivial = a poll or decision was observed.",
    deciding=lambda r: (r.get("stats") or {}).get("c13_events", 0) > 0,
    minima={"c13_events": 300, "direct_strategy_evaluations": 5000},
)
cases = SPEC.cases
run_case = SPEC.run_case
if __name__ == "__main__":
    SPEC.main("checks.c13")
