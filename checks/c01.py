"""C01 world check (see DESIGN.md section 2, C01)."""
from checks.worldcheck import Spec, replayed_delivery

PROP = "C01"
L = 256 * 1024


def explicit(tier, seed):
    """Contexts recorded as a summary (result over the checkpoint size limit): their bodies are traversed again on replay, and the
    completed operations inside them must be answered from the record, at every nesting depth."""
    from checks.c02 import explicit as big_results

    for c in big_results(tier, seed):
        yield dict(c, label="c01-" + c["label"])
    i = 0
    tail = [{"k": "wait", "s": 1}, {"k": "step", "val": "after"}, {"k": "wait", "s": 1}, {"k": "step", "val": "after2"}]
    inner_sets = ([{"k": "step", "val": "in1"}, {"k": "wait", "s": 1}, {"k": "step", "val": "in2"}],
                  [{"k": "child", "body": [{"k": "step", "val": "deep"}, {"k": "step", "val": {"a": [1, 2]}}]}, {"k": "step", "val": 3}],
                  [{"k": "step", "script": [{"do": "fail", "cls": "ValueError", "msg": "once"}, {"do": "ok", "val": 7}],
                    "retry": {"decisions": [("retry", 1), ("stop",)]}}, {"k": "wfc", "init": 0, "decisions": [("cont", 1), ("stop",)]}],
                  [{"k": "par", "branches": [{"body": [{"k": "step", "val": "pa"}]}, {"body": [{"k": "step", "val": "pb"}, {"k": "wait", "s": 1}]}], "cfg": None}],
                  [{"k": "try", "body": {"k": "wfcb"}, "catch": "*"}, {"k": "step", "val": "post-cb"}])
    for n in (L + 10, 3 * L):
        for inner in inner_sets:
            big = {"k": "child", "body": inner, "result": {"big": n}, "cfg": None if i % 2 else {"summary": '{"s":1}'}}
            for wrap in (0, 1):
                node = big if not wrap else {"k": "child", "body": [{"k": "step", "val": "pre"}, big, {"k": "step", "val": "post"}]}
                yield {"label": "c01-summarised-context", "prog": {"body": [node] + tail}, "prog_seed": 26000 + i,
                       "pattern": {"p": "crash_enum", "max_points": 10} if (tier != "quick" or i % 4 == 0) else {"p": "plain"},
                       "pages": [{}, {"first_page": 1, "page_size": 2}][i % 2]}
                i += 1
        for kind in ("par", "map"):
            brs = [{"body": [{"k": "step", "val": "x%d" % j}, {"k": "wait", "s": 1 + j}, {"k": "step", "val": "y%d" % j}], "result": {"big": n // 2 + 10}} for j in range(2)]
            node = {"k": "par", "branches": brs, "cfg": None} if kind == "par" else {"k": "map", "items": [0, 1], "per_item": brs, "body": [], "cfg": None}
            yield {"label": "c01-summarised-" + kind, "prog": {"body": [node] + tail}, "prog_seed": 26000 + i,
                   "pattern": {"p": "crash_enum", "max_points": 10} if tier != "quick" else {"p": "plain"}}
            i += 1
def merge_window_cases(tier, seed):
    """Re-invocation of a block whose branches are at different distances from the replay boundary: some are still replaying long
    runs of completed operations while others already record new work, so lookups of the history race with the checkpoint thread
    merging responses into it; the merging thread is descheduled right after each statement that signals or empties something
    (after-sync perturbation)."""
    import random

    rng = random.Random(seed + 11)
    for j in range(10 if tier == "quick" else 100):
        nb = rng.choice([2, 3, 4])
        brs = []
        for b in range(nb):
            done = rng.choice([1, 2, 12, 20, 30]) if b else 25
            new = rng.choice([1, 4, 8])
            brs.append({"body": [{"k": "step", "val": "d%d_%d" % (b, k)} for k in range(done)] + [{"k": "wait", "s": 1}] +
                                [{"k": "step", "val": "n%d_%d" % (b, k)} for k in range(new)]})
        node = {"k": rng.choice(["par", "par", "map"]), "cfg": {"preset": "all_completed"}}
        if node["k"] == "par":
            node["branches"] = brs
        else:
            node.update(items=list(range(nb)), per_item=brs, body=[])
        yield {"label": "c01-replay-while-merging", "prog": {"body": [{"k": "step", "val": 0}, node, {"k": "step", "val": "end"}]}, "prog_seed": 26500 + j,
               "pattern": {"p": "plain"}, "pages": rng.choice([{}, {}, {"resp_page": 2}]),
               "opts": {"perturb": {"p": 0.0, "seed": seed * 71 + j, "files": ["state.py"], "after_sync": {"p": 0.9, "sleep": 0.003}}}}


def same_invocation_replay_cases(tier, seed):
    """An operation that is READY / STARTED / PENDING in the history completes in this invocation, and its branch is then resumed by
    the in-process timer (a sibling keeps the block running): the second pass over the operation, in the SAME invocation, must be
    answered from what this invocation recorded."""
    i = 0
    for kind in ("par", "map"):
        for first in ("retry", "retry-most", "wfc", "wait-then-step"):
            for depth in (0, 1):
                if first == "wfc":
                    op = {"k": "wfc", "init": 0, "decisions": [("cont", 1), ("stop",)]}
                elif first == "wait-then-step":
                    op = {"k": "step", "val": {"items": ["apple"]}, "mutate": True}  # the workflow updates the delivered value in place
                else:
                    op = {"k": "step", "script": [{"do": "fail", "cls": "ValueError", "msg": "x"}, {"do": "ok", "val": 7}], "retry": {"decisions": [("retry", 1), ("stop",)]},
                          "sem": "most" if first == "retry-most" else "least"}
                b0 = ([{"k": "wait", "s": 1}] if first == "wait-then-step" else []) + [op, {"k": "wait", "s": 1}, {"k": "step", "val": "fin"}]
                fin = "0/b0/%d" % (len(b0) - 1)
                if depth:
                    b0 = [{"k": "child", "body": b0}]
                    fin = "0/b0/0/%d" % (len(b0[0]["body"]) - 1)
                b1 = [{"k": "wait", "s": 1}, {"k": "step", "script": [{"do": "ok", "val": "busy", "gate": "busy"}]}]
                brs = [{"body": b0}, {"body": b1}]
                node = {"k": "par", "branches": brs, "cfg": {"preset": "all_completed"}} if kind == "par" else {"k": "map", "items": [0, 1], "per_item": brs, "body": [], "cfg": None}
                yield {"label": "c01-same-invocation-replay|%s|%s" % (kind, first), "prog": {"body": [node, {"k": "step", "val": "end"}]}, "prog_seed": 26800 + i,
                       "pattern": {"p": "plain"}, "max_inv": 14, "world": {"complete": {}, "timers": "all"},
                       "holds": [{"match": {"kind": "gate", "name": "busy"}, "until": {"event": {"kind": "ret", "path": fin}}}],
                       "opts": {"idle_s": 0.8, "hang_s": 3.0}}
                i += 1


def unreadable_on_replay_cases(tier, seed):
    """A completed operation whose recorded payload cannot be read back in a later invocation (the custom serdes' store is down):
    failing the invocation is fine, handing the workflow some other value is not."""
    i = 0
    ops = {"step": {"k": "step", "val": {"status": "SHIPPED"}, "serdes": "outage"},
           "wfc": {"k": "wfc", "init": {"status": "NEW"}, "checks": [{"do": "ok", "val": {"status": "PACKED"}}, {"do": "ok", "val": {"status": "SHIPPED"}}],
                   "decisions": [("cont", 1), ("stop",)], "serdes": "outage"},
           "child": {"k": "child", "body": [{"k": "step", "val": 1}], "result": {"status": "SHIPPED"}, "cfg": {"serdes": "outage"}},
           "cb": {"k": "cb", "cfg": {"serdes": "outage"}}}
    for name, op in ops.items():
        for shape in ("top", "branch"):
            body = [dict(op), {"k": "wait", "s": 1}, {"k": "step", "val": "after"}, {"k": "wait", "s": 1}, {"k": "step", "val": "end"}]
            cpath = "0"
            if shape == "branch":
                body = [{"k": "par", "branches": [{"body": body}, {"body": [{"k": "step", "val": 1}]}], "cfg": {"preset": "all_completed"}}]
                cpath = "0/b0/0"
            world = {"complete": {cpath: {"when": "immediate", "status": "SUCCEEDED", "result": '{"status": "SHIPPED"}'}}, "timers": "all"}
            yield {"label": "c01-unreadable-on-replay|%s|%s" % (name, shape), "prog": {"body": body}, "prog_seed": 26900 + i, "pattern": {"p": "plain"}, "world": world,
                   "max_inv": 8, "max_raises": 2}
            i += 1


def explicit_all(tier, seed):
    yield from explicit(tier, seed)
    yield from unreadable_on_replay_cases(tier, seed)
    yield from merge_window_cases(tier, seed)
    yield from same_invocation_replay_cases(tier, seed)
    # the same shapes while a page of a paginated checkpoint RESPONSE cannot be fetched: what that page carried (the completion of an
    # operation) is not delivered again, so carrying on without it re-runs completed work when the branch passes the operation again
    for j, c in enumerate(same_invocation_replay_cases(tier, seed)):
        if j % 2 and tier == "quick":
            continue
        for nth in (1, 2, 3, 4, 5, 6):
            yield dict(c, label=c["label"].replace("c01-same-invocation-replay", "c01-same-invocation-replay-page-fetch-fails"), prog_seed=c["prog_seed"] + 500 + nth,
                       pages={"resp_page": 0}, max_raises=2,
                       faults=[{"match": {"op": "get_state", "n_inv": None}, "err": {"kind": "client", "status": 500, "code": "ServiceException", "message": "boom"}, "when": "before", "nth": nth}])
    # completed map / parallel recorded as a summary, configured with a batch-level serdes only: the replay hands back the recorded items
    from checks.c16 import more_cases as c16_more

    for c in c16_more(tier, seed):
        if "batch-level-serdes-only" in c["label"] or "passed-again-in-the-same-invocation" in c["label"]:
            yield dict(c, label="c01-" + c["label"])


SPEC = Spec(
    PROP,
    level="fault_enumeration",
    rule="random programs (all nine operation kinds, nesting<=3) x {uninterrupted with random pagination/latency, every single "
    "crash point of a small-program corpus, random multi-crash, asynchronous SIGKILL, yield injection}; at every user-function entry the backend table must not hold that operation terminal (context bodies excepted only under ReplayChildren); every operation terminal at invocation start must deliver the recorded kind of outcome. Explicit slice: child contexts / map / parallel whose result exceeds the checkpoint size limit (recorded as a summary, body traversed again on replay) with steps, retried steps, waits, conditions, callbacks and nested contexts inside, at two nesting depths; blocks whose branches replay 1-30 completed operations each while sibling branches already record new work, under after-sync perturbation of the checkpoint thread; operations that are READY/STARTED in the history, complete in this invocation and are passed a second time in the same invocation (branch resumed by the in-process timer). Non-trivial = an operation that was terminal at an invocation's start was delivered again (replayed) in that invocation. "
    "A class = (program shape hash, interruption pattern, event kind at which the crash landed).",
    deciding=replayed_delivery,
    explicit=explicit_all,
)
cases = SPEC.cases
run_case = SPEC.run_case
if __name__ == "__main__":
    SPEC.main("checks.c01")
