"""Targeted pause plans (name-dependent perturbation, never a deciding oracle). See DESIGN §1.6."""
from __future__ import annotations


def install(plans: list, rt) -> None:
    for plan in plans:
        kind = plan.get("kind")
        if kind == "queue_put":
            _install_queue_put(plan, rt)
        elif kind == "ews_setattr":
            _install_ews_setattr(plan, rt)
        elif kind == "qop_gate":
            _install_qop_gate(plan, rt)
        elif kind == "batcher_config":
            _install_batcher_config(plan, rt)


def _install_queue_put(plan, rt):
    """Report every put on the checkpoint queue as a gate 'put:<action>:<name>' the conductor may hold."""
    import queue

    from aws_durable_execution_sdk_python import state as m_state

    base_queue = m_state.queue.Queue
    want = plan.get("match") or {}

    class PQueue(base_queue):
        def put(self, item, block=True, timeout=None):
            upd = getattr(item, "operation_update", None)
            if upd is not None:
                act = upd.action.value
                typ = upd.operation_type.value
                if (not want.get("action") or want["action"] == act) and (not want.get("type") or want["type"] == typ) and (
                    not want.get("name") or want["name"] == upd.name
                ):
                    rt.rpc("gate", name="put:%s:%s:%s" % (typ, act, upd.name), path=upd.name)
            return super().put(item, block, timeout)

    orig_init = m_state.ExecutionState.__init__

    def init(self, *a, **kw):
        orig_init(self, *a, **kw)
        if isinstance(getattr(self, "_checkpoint_queue", None), queue.Queue):
            self._checkpoint_queue = PQueue()
            rt.post("targeted_attached", what="queue_put")

    m_state.ExecutionState.__init__ = init


def _install_ews_setattr(plan, rt):
    """Yield (sleep) between the field writes of ExecutableWithState transitions."""
    import time

    from aws_durable_execution_sdk_python.concurrency import models as m

    delay = plan.get("delay", 0.002)
    cls = m.ExecutableWithState
    hits = [0]

    def __setattr__(self, k, v):
        object.__setattr__(self, k, v)
        if k in ("_status", "_result", "_error"):
            hits[0] += 1
            time.sleep(delay)

    cls.__setattr__ = __setattr__
    rt.post("targeted_attached", what="ews_setattr")


def _install_qop_gate(plan, rt):
    """Gate the construction of the queue wrapper of matching updates: the point between the failure check and the
    orphan-check/enqueue critical section of create_checkpoint (outside every lock)."""
    import re

    from aws_durable_execution_sdk_python import state as m_state

    orig = getattr(m_state, "QueuedOperation", None)
    if orig is None:
        return
    want = plan.get("match") or {}

    def gated(operation_update=None, completion_event=None, *a, **kw):
        upd = operation_update
        if upd is not None:
            act, typ, name = upd.action.value, upd.operation_type.value, upd.name or ""
            if (not want.get("action") or want["action"] == act) and (not want.get("type") or want["type"] == typ) and (
                not want.get("name_re") or re.search(want["name_re"], name)
            ):
                rt.rpc("gate", name="qop:%s:%s:%s" % (typ, act, name), path=name)
        return orig(operation_update, completion_event, *a, **kw)

    m_state.QueuedOperation = gated
    rt.post("targeted_attached", what="qop_gate")


def _install_batcher_config(plan, rt):
    """Run the invocation with a non-default CheckpointBatcherConfig (the wrapper builds ExecutionState with the default one)."""
    from aws_durable_execution_sdk_python import state as m_state

    orig = getattr(m_state, "CheckpointBatcherConfig", None)
    if orig is None:
        return

    def factory(*a, **kw):
        if a or kw:
            return orig(*a, **kw)
        return orig(max_batch_size_bytes=plan.get("max_bytes", 750 * 1024), max_batch_time_seconds=plan.get("window", 1.0),
                    max_batch_operations=plan.get("max_ops", 250))

    m_state.CheckpointBatcherConfig = factory
    rt.post("targeted_attached", what="batcher_config")
