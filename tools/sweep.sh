#!/bin/sh
# usage: tools/sweep.sh <tier> <seed>...   runs every registered check for each seed; evidence redirected; prints one line per run
cd "$(dirname "$0")/.."
tier=$1; shift
for seed in "$@"; do
  for id in C01 C02 C03 C04 C05 C06 C07 C08 C09 C10 C11 C12 C13 C14 C15 C16 C17 C18 C19 C20; do
    out=$(VERIF_EVIDENCE_DIR=/dev/shm/sweep-ev VERIF_REPLAY_DIR=/verif/out/sweep-replays ./check $id --tier $tier --seed $seed 2>&1)
    rc=$?
    echo "rc=$rc $(echo "$out" | tail -1)"
    if [ $rc -ne 0 ]; then echo "$out" | grep -E "VIOLATION|INCONCLUSIVE|failed" | cut -c1-400 | head -5; fi
  done
done
