"""Targeted pause plans (name-dependent perturbation, never a deciding oracle). See DESIGN §1.6."""
from __future__ import annotations


def install(plans: list, rt) -> None:
    for plan in plans:
        kind = plan.get("kind")
        if kind == "queue_put":
            _install_queue_put(plan, rt)
        elif kind == "ews_setattr":
            _install_ews_setattr(plan, rt)


def _install_queue_put(plan, rt):
    """Report every put on the checkpoint queue as a gate 'put:<action>:<name>' the conductor may hold."""
    import queue

    from aws_durable_execution_sdk_python import state as m_state

    base_queue = m_state.queue.Queue
    want = plan.get("match") or {}

    class PQueue(base_queue):
        def put(self, item, block=True, timeout=None):
            upd = getattr(item, "operation_update", None)
            if upd is not None:
                act = upd.action.value
                typ = upd.operation_type.value
                if (not want.get("action") or want["action"] == act) and (not want.get("type") or want["type"] == typ) and (
                    not want.get("name") or want["name"] == upd.name
                ):
                    rt.rpc("gate", name="put:%s:%s:%s" % (typ, act, upd.name), path=upd.name)
            return super().put(item, block, timeout)

    orig_init = m_state.ExecutionState.__init__

    def init(self, *a, **kw):
        orig_init(self, *a, **kw)
        if isinstance(getattr(self, "_checkpoint_queue", None), queue.Queue):
            self._checkpoint_queue = PQueue()
            rt.post("targeted_attached", what="queue_put")

    m_state.ExecutionState.__init__ = init


def _install_ews_setattr(plan, rt):
    """Yield (sleep) between the field writes of ExecutableWithState transitions."""
    import time

    from aws_durable_execution_sdk_python.concurrency import models as m

    delay = plan.get("delay", 0.002)
    cls = m.ExecutableWithState
    hits = [0]

    def __setattr__(self, k, v):
        object.__setattr__(self, k, v)
        if k == "_status":
            hits[0] += 1
            time.sleep(delay)

    cls.__setattr__ = __setattr__
    rt.post("targeted_attached", what="ews_setattr")
