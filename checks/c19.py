"""C19 - ordered lock and counter: FIFO, exclusive, gap-free, never wedged. Dedicated stress harness on the real classes."""
from __future__ import annotations

import random
import sys
import threading
import time
from collections import deque

from dw import harness
from dw.monitors import V

PROP = "C19"


class RecDeque(deque):
    """Substituted for OrderedLock._waiters: append() runs while the lock's own inner mutex is held,
    so the recorded arrival order is the true one (invariant at a hook under the object's own lock)."""

    def __init__(self, log):
        super().__init__()
        self.log = log

    def append(self, ev):
        self.log.append(threading.get_ident())
        super().append(ev)


class Yield:
    """sys.monitoring LINE yield injection restricted to the SDK's threading.py."""

    TOOL = 3

    def __init__(self, seed, p, pct=False):
        self.rng = random.Random(seed)
        self.p = p
        self.hits = 0
        self.lock = threading.Lock()
        self.pct = pct
        self.prio = {}

    def __enter__(self):
        mon = sys.monitoring
        try:
            mon.use_tool_id(self.TOOL, "c19-yield")
        except ValueError:
            pass

        def on_line(code, line):
            if not code.co_filename.endswith("aws_durable_execution_sdk_python/threading.py"):
                return mon.DISABLE
            with self.lock:
                r, r2 = self.rng.random(), self.rng.random()
            p = self.p
            if self.pct:
                tid = threading.get_ident()
                pr = self.prio.setdefault(tid, r2)
                if r2 < 0.002:
                    self.prio[tid] = r
                p = self.p * 2 * (1 - pr)
            if r < p:
                self.hits += 1
                time.sleep(0 if r2 < 0.8 else r2 * 0.0005)
            return None

        mon.register_callback(self.TOOL, mon.events.LINE, on_line)
        mon.set_events(self.TOOL, mon.events.LINE)
        self.old = sys.getswitchinterval()
        sys.setswitchinterval(1e-5)
        return self

    def __exit__(self, *a):
        sys.monitoring.set_events(self.TOOL, 0)
        sys.monitoring.register_callback(self.TOOL, sys.monitoring.events.LINE, None)
        sys.monitoring.free_tool_id(self.TOOL)
        sys.setswitchinterval(self.old)


class Boom(Exception):
    pass


class BaseBoom(BaseException):
    """A failure that is not an Exception (as the SDK's own SuspendExecution / BackgroundThreadError, KeyboardInterrupt)."""


class HostileBoom(Exception):
    """A failure whose text cannot be produced (a buggy __str__): legal to raise, and still the holder's own exception."""

    def __str__(self):
        return {"not": "a string"}  # str(e) raises TypeError


def lock_trial(case):
    from aws_durable_execution_sdk_python.exceptions import OrderedLockError
    from aws_durable_execution_sdk_python.threading import OrderedLock

    rng = random.Random(case["seed"])
    k, rounds = case["threads"], case["rounds"]
    inject = case.get("inject")  # (thread index, round) or None
    lock = OrderedLock()
    arrivals: list[int] = []
    attached = hasattr(lock, "_waiters") and isinstance(lock._waiters, deque)
    if attached:
        lock._waiters = RecDeque(arrivals)
    grants: list[int] = []
    inside = [0]
    max_inside = [0]
    outcomes: dict[int, list] = {}
    state: dict[int, str] = {}
    broke_at = [None]
    start = threading.Barrier(k)
    intervals = []  # (tid, call_t, ret_t) fallback real-time precedence
    ctr = [0]
    abort = [False]

    def tick():
        ctr[0] += 1
        return ctr[0]

    def worker(idx):
        tid = threading.get_ident()
        outcomes[tid] = []
        start.wait()
        for rd in range(rounds):
            if abort[0]:
                return
            state[tid] = "acquiring"
            t_call = tick()
            try:
                with lock:
                    t_ret = tick()
                    intervals.append((tid, t_call, t_ret))
                    state[tid] = "holding"
                    inside[0] += 1
                    max_inside[0] = max(max_inside[0], inside[0])
                    grants.append(tid)
                    if rng.random() < 0.3:
                        time.sleep(0)
                    inside[0] -= 1
                    if inject == (idx, rd):
                        broke_at[0] = len(grants)
                        if case.get("inject_cls") == "base":
                            raise BaseBoom("injected in critical section")
                        if case.get("inject_cls") == "suspend":
                            from aws_durable_execution_sdk_python.exceptions import SuspendExecution

                            raise SuspendExecution("injected in critical section")
                        if case.get("inject_cls") == "hostile":
                            raise HostileBoom("injected in critical section")
                        raise Boom("injected in critical section")
                outcomes[tid].append("ok")
            except OrderedLockError:
                outcomes[tid].append("lock-error")
                break
            except (Boom, BaseBoom, HostileBoom):
                outcomes[tid].append("own-exception")
                break
            except BaseException as e:  # noqa: BLE001
                if type(e).__name__ != "SuspendExecution":
                    outcomes[tid].append("other:" + type(e).__name__)  # neither the holder's own exception nor a lock error
                    break
                outcomes[tid].append("own-exception")
                break
            except OrderedLockError:
                outcomes[tid].append("lock-error")
                break
            state[tid] = "between"
        state[tid] = "done"

    ths = [threading.Thread(target=worker, args=(i,), name="c19-%d" % i, daemon=True) for i in range(k)]
    t0 = time.monotonic()
    for t in ths:
        t.start()
    for t in ths:
        t.join(timeout=max(0.05, 2.5 - (time.monotonic() - t0)))
    viol = []
    alive = [t for t in ths if t.is_alive()]
    verdict = "ok"
    if alive:
        # logical wedge rule: waiters queued, head not signalled, nobody holding, every live thread acquiring
        waiters = list(getattr(lock, "_waiters", []))
        head_set = waiters[0].is_set() if waiters else None
        all_acq = all(state.get(t.ident) == "acquiring" for t in alive)
        holders = [s for s in state.values() if s == "holding"]
        if waiters and head_set is False and not holders and all_acq:
            viol.append(V(PROP, "C19/wedged/waiters-queued-head-not-signalled", "%d thread(s) blocked forever in acquire, %d waiters queued, head event unset, no holder" % (len(alive), len(waiters))))
        elif all_acq and not holders:
            viol.append(V(PROP, "C19/wedged/acquirers-blocked-no-holder", "%d thread(s) blocked in acquire, no holder (waiters=%d head_set=%s broken=%s)" % (len(alive), len(waiters), head_set, getattr(lock, "_is_broken", None))))
        else:
            verdict = "inconclusive"
        # unblock to let the process exit
        abort[0] = True
        for w in waiters:
            w.set()
    if max_inside[0] > 1:
        viol.append(V(PROP, "C19/two-holders", "max simultaneous holders %d" % max_inside[0]))
    if attached:
        order = arrivals[: len(grants)]
        if grants != order:
            first = next(i for i, (a, b) in enumerate(zip(grants, order)) if a != b) if len(grants) == len(order) else -1
            viol.append(V(PROP, "C19/grant-order-not-arrival-order", "grant order differs from arrival order at position %d (grants=%d arrivals=%d)" % (first, len(grants), len(arrivals))))
    else:
        # weaker, internals-free form: real-time precedence (A returned from acquire before B called it => A granted before B)
        pos = {}
        for i, (tid, c, r_) in enumerate(intervals):
            pos[(tid, c)] = i
        for i, (ta, ca, ra) in enumerate(intervals):
            for j, (tb, cb, rb) in enumerate(intervals):
                if ra < cb and j < i:
                    viol.append(V(PROP, "C19/realtime-precedence-violated", "acquire that started after another returned was granted first"))
                    break
    if inject is not None and broke_at[0] is not None:
        thrower = [tid for tid, o in outcomes.items() if o and o[-1] == "own-exception"]
        if len(thrower) != 1:
            viol.append(V(PROP, "C19/thrower-did-not-see-own-exception", "outcomes %s" % list(outcomes.values())))
        if len(grants) > broke_at[0]:
            viol.append(V(PROP, "C19/granted-after-break", "%d grant(s) after the holder left with an exception" % (len(grants) - broke_at[0])))
        for tid, o in outcomes.items():
            if tid in thrower:
                continue
            if not alive and o and o[-1] == "ok" and len(o) < rounds:
                viol.append(V(PROP, "C19/waiter-neither-granted-nor-failed", "thread ended without lock error"))
            if not alive and len(o) < rounds and (not o or o[-1] != "lock-error"):
                viol.append(V(PROP, "C19/acquirer-after-break-no-lock-error", "outcomes %s" % o))
    elif not alive:
        if any(o != ["ok"] * rounds for o in outcomes.values()):
            viol.append(V(PROP, "C19/spurious-failure", "outcomes %s" % list(outcomes.values())[:3]))
    return viol, verdict, len(grants), attached, arrivals[:12]


def counter_trial(case):
    from aws_durable_execution_sdk_python.threading import OrderedCounter

    k, rounds = case["threads"], case["rounds"]
    c = OrderedCounter()
    arrivals: list[int] = []
    inner = getattr(c, "_lock", None)
    attached = inner is not None and isinstance(getattr(inner, "_waiters", None), deque)
    if attached:
        inner._waiters = RecDeque(arrivals)
    got: dict[int, list[int]] = {}
    start = threading.Barrier(k)

    def worker(idx):
        tid = threading.get_ident()
        got[tid] = []
        start.wait()
        for _ in range(rounds):
            got[tid].append(c.increment())

    ths = [threading.Thread(target=worker, args=(i,), daemon=True) for i in range(k)]
    for t in ths:
        t.start()
    t0 = time.monotonic()
    for t in ths:
        t.join(timeout=max(0.05, 2.5 - (time.monotonic() - t0)))
    viol = []
    if any(t.is_alive() for t in ths):
        viol.append(V(PROP, "C19/counter-wedged", "incrementers blocked"))
        for w in list(getattr(inner, "_waiters", [])):
            w.set()
        return viol, "ok", 0, attached, []
    allv = sorted(v for vs in got.values() for v in vs)
    if allv != list(range(1, k * rounds + 1)):
        viol.append(V(PROP, "C19/counter-values-not-1..n-once-each", "got %s..." % allv[:10]))
    if attached:
        byval = {v: tid for tid, vs in got.items() for v in vs}
        order = [byval.get(v) for v in range(1, k * rounds + 1)]
        if order != arrivals[: len(order)]:
            viol.append(V(PROP, "C19/counter-not-in-arrival-order", "value order differs from arrival order"))
    for tid, vs in got.items():
        if vs != sorted(vs):
            viol.append(V(PROP, "C19/counter-not-monotonic-per-thread", str(vs[:6])))
    return viol, "ok", k * rounds, attached, arrivals[:12]


def cases(tier, seed):
    n = 3000 if tier == "quick" else 40000
    rng = random.Random(seed)
    for i in range(n):
        k = rng.choice([2, 2, 3, 4, 6, 8, 12, 16])
        rounds = rng.choice([1, 2, 3, 5, 10, 30, 50]) if k <= 8 else rng.choice([1, 2, 5])
        kind = "counter" if i % 4 == 3 else "lock"
        inject = None
        if kind == "lock" and rng.random() < 0.45:
            inject = (rng.randrange(k), rng.randrange(rounds))
        yield {"label": kind, "kind": kind, "seed": seed * 1000003 + i, "threads": k, "rounds": rounds, "inject": inject,
               "inject_cls": rng.choice(["exc", "exc", "base", "suspend", "hostile"]) if inject else None,
               "perturb": rng.choice(["none", "yield", "yield", "pct", "dense"])}


def run_case(case):
    p = {"none": 0.0, "yield": 0.08, "pct": 0.15, "dense": 0.5}[case["perturb"]]
    fn = lock_trial if case["kind"] == "lock" else counter_trial
    if p:
        with Yield(case["seed"], p, pct=case["perturb"] == "pct") as y:
            viol, verdict, n_ops, attached, arr = fn(case)
        hits = y.hits
    else:
        viol, verdict, n_ops, attached, arr = fn(case)
        hits = 0
    cls = "%s|t%d|r%d|inj%s|%s" % (case["kind"], case["threads"], case["rounds"], "y" if case.get("inject") else "n", case["perturb"])
    inter = "%s:%s" % (case["kind"], hash(tuple(arr)) & 0xFFFFFFFF)
    for v in viol:
        v["case"] = case
    return {"execs": 1, "classes": {cls} if n_ops else set(), "interleavings": {inter}, "violations": viol,
            "obs": {"grants_or_increments": n_ops, "yield_hits": hits, "arrival_hook_attached": 1 if attached else 0,
                    "inconclusive_trials": 1 if verdict == "inconclusive" else 0, "exception_injected": 1 if case.get("inject") else 0},
            "sample": {"label": case["kind"], "threads": case["threads"], "rounds": case["rounds"], "inject": case.get("inject"),
                       "perturb": case["perturb"], "first_arrivals": [a % 1000 for a in arr]}}


RULE = ("many short histories on the real OrderedLock/OrderedCounter: 2-16 threads x 1-50 acquire/release (or increment) rounds, an exception "
        "(an Exception, a bare BaseException or the SDK's SuspendExecution) injected in one critical section in ~45% of lock trials, under no perturbation / LINE-level yield injection on the SDK's threading.py "
        "(sparse, dense, PCT-style priorities) with switch interval 10us. True arrival order is recorded by a deque subclass substituted for "
        "the waiter queue (its append runs under the lock's own mutex). Oracle: grant order = arrival order, never two holders, thrower sees "
        "its own exception and nobody is granted afterwards, every other acquirer gets OrderedLockError, all threads terminate (wedge decided "
        "logically: waiters queued, head unsignalled, no holder); counter returns 1..n once each in arrival order. A class = (kind, threads, "
        "rounds, injected?, perturbation); distinct interleavings = distinct arrival-order prefixes.")

if __name__ == "__main__":
    import time as _t

    sys.exit(harness.main_for("checks.c19", PROP, "exploration", RULE,
                              ["CPython 3.12 GIL scheduling with injected yields; arrival hook depends on the _waiters deque attribute (falls back to real-time precedence if absent)"],
                              {"grants_or_increments": 3000, "yield_hits": 1000}))
