"""C11 - the update stream is always a valid operation history."""
from checks.worldcheck import Spec

PROP = "C11"
SPEC = Spec(
    PROP,
    level="fault_enumeration",
    rule="random programs (all nine operation kinds, nesting<=3) x {uninterrupted with random pagination/latency, every single "
    "crash point of a small-program corpus (before/after each API call, at every probe event), random multi-crash, asynchronous "
    "SIGKILL, LINE-level yield injection}; a per-operation lifecycle automaton runs over the concatenated applied-update stream of "
    "all invocations. A class = (program shape hash, interruption pattern, event kind at which the crash landed); non-trivial = "
    "at least one update was applied.",
    deciding=lambda r: len(r["applied"]) > 0,
)
cases = SPEC.cases
run_case = SPEC.run_case
if __name__ == "__main__":
    SPEC.main("checks.c11")
