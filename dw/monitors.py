"""Offline monitors over the enriched trace of one execution (DESIGN §2).

Each monitor returns a list of violations {prop, key, msg, at}. `key` is a mechanism class computed
by the monitor's classifier (never a seed or hash); known findings are matched on it.
"""
from __future__ import annotations

import re

from dw.backend import TERMINAL
from dw.program import OPKINDS, ctx_path, walk

ALLOWED_ACTIONS = {
    "STEP": {"START", "RETRY", "SUCCEED", "FAIL"},
    "WAIT": {"START", "CANCEL"},
    "CALLBACK": {"START"},
    "CHAINED_INVOKE": {"START"},
    "CONTEXT": {"START", "SUCCEED", "FAIL"},
    "EXECUTION": {"SUCCEED", "FAIL"},
}
SUBTYPES = {
    "STEP": {"Step", "WaitForCondition"},
    "WAIT": {"Wait"},
    "CALLBACK": {"Callback"},
    "CHAINED_INVOKE": {"ChainedInvoke"},
    "CONTEXT": {"RunInChildContext", "Map", "MapIteration", "Parallel", "ParallelBranch", "WaitForCallback"},
}
LEAF = ("step", "wait", "cb", "invoke", "wfc")


def V(prop, key, msg, at=None, **kw):
    d = {"prop": prop, "key": key, "msg": msg, "at": at}
    d.update(kw)
    return d


class Index:
    """Derived views shared by the monitors."""

    def __init__(self, r: dict):
        self.r = r
        self.trace = r["trace"]
        self.applied = r["applied"]
        self.prog = r["scenario"]["prog"]
        self.nodes = dict(walk(self.prog["body"]))
        self.id2path: dict[str, str] = {}
        self.path2id: dict[str, str] = {}
        self.parent: dict[str, str | None] = {}
        self.kind: dict[str, str] = {}
        for e in self.trace:
            if e["kind"] == "api":
                for u in e.get("updates") or []:
                    self._learn(u)
        self.by_inv: dict[int, list[dict]] = {}
        for e in self.trace:
            self.by_inv.setdefault(e["inv"], []).append(e)
        self.crashfree = not any(i.get("killed") or i.get("died") for i in r["invocations"])

    def _learn(self, u):
        if u.get("Type") == "EXECUTION":
            return
        oid = u["Id"]
        if oid in self.id2path:
            return
        name = u.get("Name") or ""
        pid = u.get("ParentId")
        m = re.match(r"^(parallel-branch|map-item)-(\d+)$", name)
        if m:
            path = "%s/b%s" % (self.id2path.get(pid, "?" + str(pid)[:8]), m.group(2))
        elif name.endswith(" create callback id"):
            path = name[: -len(" create callback id")] + "@cb"
        elif name.endswith(" submitter"):
            path = name[: -len(" submitter")] + "@sub"
        else:
            path = name
        self.id2path[oid] = path
        self.path2id.setdefault(path, oid)
        self.parent[oid] = pid
        self.kind[oid] = u.get("Type")

    def ancestors(self, oid):
        seen = set()
        p = self.parent.get(oid)
        while p and p not in seen:
            seen.add(p)
            yield p
            p = self.parent.get(p)

    def node_of(self, path: str):
        p = path.split("@")[0]
        return self.nodes.get(p)


# =============================================================================== C11
def mon_c11(ix: Index):
    out = []
    st: dict[str, dict] = {}
    exec_seen = None
    started_ctx = set()
    for a in ix.applied:
        if a.get("world"):
            s = st.get(a["Id"])
            if s is not None:
                s["status"] = a["status"]
                if a["status"] == "READY":
                    s["await_start"] = False
            continue
        u = a["u"]
        typ, act, oid = u.get("Type"), u.get("Action"), u.get("Id")
        if exec_seen is not None:
            out.append(V("C11", "C11/update-after-execution-record", "update %s %s after EXECUTION record" % (typ, act), a["seq"]))
        if act not in ALLOWED_ACTIONS.get(typ, ()):
            out.append(V("C11", "C11/bad-type-action", "%s %s" % (typ, act), a["seq"]))
        if typ == "EXECUTION":
            if exec_seen is not None:
                out.append(V("C11", "C11/execution-record-twice", "second EXECUTION record", a["seq"]))
            exec_seen = a["seq"]
            continue
        sub = u.get("SubType")
        if sub is not None and sub not in SUBTYPES.get(typ, ()):
            out.append(V("C11", "C11/bad-subtype", "%s with SubType %s" % (typ, sub), a["seq"]))
        pid = u.get("ParentId")
        s = st.get(oid)
        if s is None:
            if act != "START":
                out.append(V("C11", "C11/first-update-not-start", "%s first update is %s (%s)" % (typ, act, u.get("Name")), a["seq"]))
            if pid and pid not in started_ctx:
                out.append(V("C11", "C11/child-before-parent-start", "%s %s (%s) before its parent context's START" % (typ, act, u.get("Name")), a["seq"]))
            s = st[oid] = {"status": None, "starts_in_attempt": 0, "type": typ, "sub": sub}
        else:
            if s["status"] in TERMINAL:
                out.append(V("C11", "C11/update-after-terminal/%s-%s-on-%s" % (typ, act, s["status"]),
                             "%s %s for %s already %s" % (typ, act, u.get("Name"), s["status"]), a["seq"]))
            if s["type"] != typ:
                out.append(V("C11", "C11/type-changed", "%s -> %s" % (s["type"], typ), a["seq"]))
        if act == "START":
            if s["starts_in_attempt"] >= 1 and s["status"] == "STARTED":
                out.append(V("C11", "C11/double-start/%s" % typ, "second START in the same attempt for %s" % u.get("Name"), a["seq"]))
            s["starts_in_attempt"] += 1
            if typ == "CONTEXT":
                started_ctx.add(oid)
            if s["status"] == "PENDING":
                out.append(V("C11", "C11/start-while-pending", "START for %s while PENDING (timer not fired)" % u.get("Name"), a["seq"]))
        elif act == "RETRY":
            if s["status"] == "PENDING":
                out.append(V("C11", "C11/retry-while-pending", "RETRY for %s while PENDING" % u.get("Name"), a["seq"]))
            s["starts_in_attempt"] = 0
        elif act in ("SUCCEED", "FAIL"):
            if s["status"] == "PENDING":
                out.append(V("C11", "C11/outcome-while-pending", "%s for %s while PENDING" % (act, u.get("Name")), a["seq"]))
        s["status"] = a["status"]
    return out


# =============================================================================== C08
GLOBAL_CHAIN2ID: dict[str, str] = {}
GLOBAL_ID2CHAIN: dict[str, str] = {}


def _norm_chain(c: str) -> str:
    return c.replace("b", "")


def mon_c08(ix: Index):
    out = []
    p2i: dict[str, str] = {}
    i2p: dict[str, str] = {}
    for e in ix.trace:
        if e["kind"] != "api":
            continue
        for u in e.get("updates") or []:
            if u.get("Type") == "EXECUTION":
                continue
            oid = u["Id"]
            path = ix.id2path.get(oid)
            name = u.get("Name") or ""
            # recompute the path from *this* update (id2path only learnt the first sighting)
            m = re.match(r"^(parallel-branch|map-item)-(\d+)$", name)
            if m:
                here = "%s/b%s" % (ix.id2path.get(u.get("ParentId"), "?"), m.group(2))
            elif name.endswith(" create callback id"):
                here = name[: -len(" create callback id")] + "@cb"
            elif name.endswith(" submitter"):
                here = name[: -len(" submitter")] + "@sub"
            else:
                here = name
            if i2p.setdefault(oid, here) != here:
                out.append(V("C08", "C08/one-id-two-positions", "id %s.. used for %s and %s" % (oid[:8], i2p[oid], here), e["i"]))
            if p2i.setdefault(here, oid) != oid:
                out.append(V("C08", "C08/one-position-two-ids", "position %s recorded under two ids" % here, e["i"]))
            want_parent = ctx_path(here)
            pid = u.get("ParentId")
            if want_parent is None:
                if pid:
                    out.append(V("C08", "C08/root-op-has-parent", "%s has ParentId" % here, e["i"]))
            else:
                wid = p2i.get(want_parent)
                if wid is None:
                    out.append(V("C08", "C08/parent-unknown", "%s: enclosing context %s never seen" % (here, want_parent), e["i"]))
                elif pid != wid:
                    out.append(V("C08", "C08/wrong-parent-link", "%s ParentId is not the id of %s" % (here, want_parent), e["i"]))
    # chains: ids must be a function of the position chain only (across programs and executions)
    chains: dict[str, str] = {}
    for e in ix.trace:
        if e["kind"] in ("call", "fn_enter") and e.get("chain"):
            chains.setdefault(e["path"], e["chain"])
    for path, ch in list(chains.items()):
        node = ix.nodes.get(path)
        if node is not None and node["k"] == "wfcb":
            chains[path + "@cb"] = ch + ".1"
            chains[path + "@sub"] = ch + ".2"
    n_chain = 0
    for path, ch in chains.items():
        oid = p2i.get(path)
        if oid is None:
            continue
        nc = _norm_chain(ch)
        n_chain += 1
        if GLOBAL_CHAIN2ID.setdefault(nc, oid) != oid:
            out.append(V("C08", "C08/id-not-function-of-position", "chain %s -> two ids" % nc))
        if GLOBAL_ID2CHAIN.setdefault(oid, nc) != nc:
            out.append(V("C08", "C08/id-collision-across-positions", "id shared by chains %s and %s" % (GLOBAL_ID2CHAIN[oid], nc)))
    # the branches of a map/parallel are distinct positions: the result reports each index once, and a block that ran to completion
    # recorded one branch context per position
    for e in ix.trace:
        if e["kind"] != "batch" or e.get("items") is None:
            continue
        node = ix.nodes.get(e["path"]) or {}
        nb = len(node.get("branches") or node.get("items") or [])
        idx = [it[0] for it in e["items"]]
        if len(set(idx)) != len(idx) or any(not (0 <= i < nb) for i in idx):
            out.append(V("C08", "C08/branch-positions-collide", "%s with %d branches reported item indices %s" % (e["path"], nb, idx), e["i"]))
        elif e.get("reason") == "ALL_COMPLETED" and all(it[1] != "STARTED" for it in e["items"]):
            pid = p2i.get(e["path"])
            kids = {u["Id"] for a in ix.trace if a["kind"] == "api" for u in a.get("updates") or []
                    if u.get("ParentId") == pid and u.get("Type") == "CONTEXT" and u.get("Action") == "START"} if pid else None
            started_here = kids is not None and any(a["kind"] == "api" and any(u["Id"] == pid and u.get("Action") == "START" for u in a.get("updates") or [])
                                                    for a in ix.trace)
            if started_here and len(idx) == nb and len(kids) != nb:
                out.append(V("C08", "C08/branch-positions-collide", "%s with %d branches recorded %d distinct branch contexts" % (e["path"], nb, len(kids)), e["i"]))
    ix.r.setdefault("stats", {})["c08_positions"] = len(p2i)
    ix.r["stats"]["c08_chains"] = n_chain
    return out


# =============================================================================== C03
def _is_final_error(e) -> bool:
    mro = e.get("mro") or []
    if "InvocationError" in mro or "BackgroundThreadError" in mro:
        return False
    if e["cls"] in ("CallableRuntimeError", "CallbackError"):
        return True
    if e.get("opkind") == "wfc" and "DurableExecutionsError" not in mro:
        return True
    return False


def armed_leaf(status, typ) -> bool:
    if typ == "WAIT":
        return status in ("STARTED", "SUCCEEDED")
    if typ == "STEP":
        return status in ("PENDING", "READY")
    if typ in ("CALLBACK", "CHAINED_INVOKE"):
        return status is not None
    return False


def mon_c03(ix: Index):
    out = []
    # "if the backend never accepts the record, user code never runs past that call and the invocation never reports success":
    # a request that was lost (fault before it was applied) - the operations it carried must not end up handled by a user except clause,
    # and the invocation must not report SUCCEEDED
    for f in ix.trace:
        if f["kind"] != "api" or not f.get("fault") or f["fault"].get("when") != "before":
            continue
        lost = {ix.id2path.get(u["Id"]) for u in f.get("updates") or []}
        for e in ix.by_inv.get(f["inv"], []):
            if e["i"] > f["i"] and e["kind"] == "caught" and e.get("path") in lost:
                out.append(V("C03", "C03/user-code-ran-past-unaccepted-record/%s" % e.get("cls"),
                             "the call carrying the record of %s failed, the workflow caught %s with an ordinary except clause and went on" % (e["path"], e.get("cls")), e["i"]))
        end = next((x for x in ix.by_inv.get(f["inv"], []) if x["kind"] == "inv_end_summary"), None)
        oc = (end or {}).get("outcome")
        if oc and oc.get("kind") == "return" and isinstance(oc.get("value"), dict) and oc["value"].get("Status") == "SUCCEEDED":
            out.append(V("C03", "C03/success-reported-although-a-record-was-never-accepted", "invocation %d reported SUCCEEDED although API call #%s was lost" % (f["inv"], f.get("n")), end["i"]))
    # a branch / invocation parks on a retry only once THAT retry record has been accepted (applied after the decision was taken)
    decided: dict[tuple, dict] = {}
    for e in ix.trace:
        if e["kind"] in ("strategy", "wfc_strategy") and (e.get("retry") or e.get("cont")):
            decided[(e["path"], e["inv"])] = e
        elif e["kind"] == "susp" and (e.get("path"), e["inv"]) in decided and e.get("opkind") in ("step", "wfc"):
            d = decided.pop((e["path"], e["inv"]))
            oid = e.get("oid")
            ok = any(a.get("u") and a["u"]["Id"] == oid and a["u"]["Action"] == "RETRY" and d.get("aseq", 0) < a["seq"] <= e.get("aseq", 10**12) for a in ix.applied)
            if not ok:
                out.append(V("C03", "C03/parked-on-unaccepted-retry-record/%s" % e.get("opkind"),
                             "%s decided to retry (event %d) and parked (backend status %s) although no RETRY record was accepted in between" % (e["path"], d["i"], e.get("st")), e["i"]))
    for e in ix.trace:
        k = e["kind"]
        if k == "ret":
            ok = e.get("st") in TERMINAL
            if e.get("phase") == "create":
                ok = e.get("st") is not None
            if not ok:
                out.append(V("C03", "C03/result-before-record/%s" % e.get("opkind"),
                             "%s returned %s while backend status is %s" % (e["path"], str(e.get("val"))[:40], e.get("st")), e["i"]))
        elif k == "exc" and _is_final_error(e):
            if e.get("st") not in TERMINAL or e.get("st") == "SUCCEEDED":
                out.append(V("C03", "C03/error-before-record/%s" % e.get("opkind"),
                             "%s raised %s while backend status is %s" % (e["path"], e["cls"], e.get("st")), e["i"]))
    for inv, evs in ix.by_inv.items():
        end = next((x for x in evs if x["kind"] == "inv_end_summary"), None)
        if end is None or end.get("outcome") is None:
            continue
        oc = end["outcome"]
        if oc["kind"] != "return" or not isinstance(oc["value"], dict):
            continue
        status = oc["value"].get("Status")
        stats = end["statuses"]
        if status == "PENDING":
            lastdel: dict[tuple, dict] = {}
            for s in evs:
                # a later call/fn_enter for the same operation means it was resumed (in flight, not parked)
                if s["kind"] in ("susp", "ret", "exc", "abort", "call"):
                    lastdel[(s.get("path"), s.get("phase"))] = s
            for s in lastdel.values():
                if s["kind"] == "susp" and s.get("opkind") in LEAF:
                    oid = s.get("oid")
                    cur = stats.get(oid) if oid else None
                    typ = ix.kind.get(oid)
                    if not armed_leaf(cur, typ):
                        out.append(V("C03", "C03/pending-without-wake-record/%s" % s.get("opkind"),
                                     "PENDING but %s (%s) has status %s" % (s["path"], s.get("opkind"), cur), s["i"]))
        if status == "SUCCEEDED" and not oc["value"].get("Result") and oc["value"].get("Result") != "null":
            er = end.get("exec_result")
            if oc["value"].get("Result") == "" and not (er and er["action"] == "SUCCEED"):
                out.append(V("C03", "C03/empty-result-without-execution-record", "SUCCEEDED with empty Result, no EXECUTION SUCCEED applied", end["i"]))
        if status in ("SUCCEEDED", "PENDING"):
            for a in evs:
                if a["kind"] == "api" and a.get("fault", {}).get("when") == "before" and a.get("updates"):
                    out.append(V("C03", "C03/%s-after-unaccepted-record" % status.lower(),
                                 "invocation reported %s although API call %d was never accepted" % (status, a["n"]), end["i"]))
                    break
    return out


# =============================================================================== C01
def _unreadable_by_design(ix, e) -> bool:
    node = ix.nodes.get(e.get("path")) or {}
    sd = node.get("serdes") or (node.get("cfg") or {}).get("serdes")
    return sd in ("outage", "writeonly") and e.get("cls") == "ExecutionError"


def mon_c01(ix: Index):
    out = []
    n_checked = 0
    for e in ix.trace:
        if e["kind"] != "fn_enter":
            continue
        fk = e.get("fnkind")
        if fk in ("step", "check", "submitter"):
            n_checked += 1
            if e.get("st") in TERMINAL:
                out.append(V("C01", "C01/function-reentered-after-terminal/%s-%s" % (fk, e["st"]),
                             "%s function at %s entered while backend holds %s" % (fk, e["path"], e["st"]), e["i"]))
        elif fk in ("child", "branch"):
            n_checked += 1
            if e.get("st") in TERMINAL and not e.get("rc"):
                out.append(V("C01", "C01/context-body-reentered-after-terminal/%s" % e["st"],
                             "%s body at %s entered while backend holds %s (no ReplayChildren)" % (fk, e["path"], e["st"]), e["i"]))
    # O2: operations terminal at invocation start deliver their recorded kind of outcome
    for inv, evs in ix.by_inv.items():
        start = next((x for x in evs if x["kind"] == "inv_start"), None)
        if not start:
            continue
        term = {oid: st for oid, st in start["statuses"].items() if st in TERMINAL}
        seen = set()
        for e in evs:
            if e["kind"] in ("ret", "exc", "susp") and e.get("phase") != "create":
                oid = e.get("oid")
                if oid in term and (oid, e.get("phase")) not in seen:
                    seen.add((oid, e.get("phase")))
                    st = term[oid]
                    if e["kind"] == "susp":
                        out.append(V("C01", "C01/terminal-op-suspended/%s" % e.get("opkind"),
                                     "%s was %s at invocation start but suspended" % (e["path"], st), e["i"]))
                    elif e["kind"] == "ret" and st != "SUCCEEDED":
                        out.append(V("C01", "C01/failed-op-returned-value/%s" % e.get("opkind"),
                                     "%s was %s at invocation start but returned a value" % (e["path"], st), e["i"]))
                    elif e["kind"] == "exc" and st == "SUCCEEDED" and _unreadable_by_design(ix, e):
                        pass  # the scenario's serdes cannot read the recorded payload back: an error is the correct outcome, another value would not be
                    elif e["kind"] == "exc" and st == "SUCCEEDED" and "InvocationError" not in (e.get("mro") or []) and (e.get("mro") or ["?"])[0] != "BaseException" \
                            and "BaseException" in (e.get("mro") or []) and "Exception" in (e.get("mro") or []):
                        out.append(V("C01", "C01/succeeded-op-raised/%s/%s" % (e.get("opkind"), e["cls"]),
                                     "%s was SUCCEEDED at invocation start but raised %s: %s" % (e["path"], e["cls"], str(e.get("msg"))[:80]), e["i"]))
    # O3: an operation that was SUCCEEDED at invocation start hands back the value it delivered when it completed (map/parallel results
    # are left to C09/C16, which know the accepted differences of rebuilt batch results)
    first_val: dict[tuple, tuple] = {}
    for inv, evs in ix.by_inv.items():
        start = next((x for x in evs if x["kind"] == "inv_start"), None)
        succ = {oid for oid, st in (start["statuses"].items() if start else []) if st == "SUCCEEDED"}
        for e in evs:
            if e["kind"] != "ret" or e.get("phase") == "create" or e.get("opkind") in ("par", "map"):
                continue
            key = (e["path"], e.get("phase"))
            if key not in first_val:
                first_val[key] = (e.get("val"), e["inv"])
            elif (e.get("oid") in succ or first_val[key][1] == inv) and first_val[key][0] != e.get("val"):
                # SUCCEEDED when the invocation started, or completed earlier in this very invocation and passed again (branch resumed)
                n_checked += 1
                out.append(V("C01", "C01/recorded-value-not-returned/%s" % e.get("opkind"),
                             "%s was completed (at the start of invocation %d or earlier in it) but returned %s; when it completed (invocation %d) it delivered %s"
                             % (e["path"], inv, str(e.get("val"))[:60], first_val[key][1], str(first_val[key][0])[:60]), e["i"]))
    ix.r.setdefault("stats", {})["c01_entries_checked"] = n_checked
    return out


# =============================================================================== C02
def mon_c02(ix: Index):
    out = []
    first: dict[tuple, tuple] = {}
    n = 0
    for e in ix.trace:
        if e["kind"] not in ("ret", "exc"):
            continue
        if e["kind"] == "exc":
            mro = e.get("mro") or []
            if "InvocationError" in mro or "BaseException" in mro[:1]:
                continue
            if not _is_final_error(e):
                continue
            obs = ("exc", e["cls"], e.get("msg"), e.get("etype"))
        else:
            obs = ("ret", e.get("val"), e.get("ko") or "")
        key = (e["path"], e.get("phase"))
        n += 1
        if key not in first:
            first[key] = (obs, e["inv"], e["i"])
        elif first[key][0] != obs:
            f = first[key]
            what = "value" if obs[0] == f[0][0] == "ret" else ("exception" if obs[0] == f[0][0] else "kind")
            if what == "value" and obs[1] == f[0][1]:
                what = "mapping-iteration-order"  # equal by ==, but a loop over the delivered mapping runs in another order
            k2 = "C02/replay-differs/%s/%s" % (e.get("opkind"), what)
            if what == "value" and e.get("opkind") in ("par", "map"):
                # mechanism class shared with C09 / C16 (known finding): a summarised batch decided early, a branch recorded after the decision
                def _sig_at(idx, path=e["path"]):
                    b = next((x for x in ix.trace[idx:idx + 4] if x["kind"] == "batch" and x["path"] == path and x.get("items") is not None), None)  # follows its ret event
                    return b and ((tuple(tuple(x) if isinstance(x, list) else x for x in map(tuple, b["items"])), b["reason"]), b)
                s1, s2 = _sig_at(f[2]), _sig_at(e["i"])
                mech = _early_summarised_drift(s1[0], s2[0], s2[1]) if s1 and s2 else None
                if mech:
                    k2 = "C02/replay-differs/" + mech
            out.append(V("C02", k2,
                         "%s delivered %s in invocation %d but %s in invocation %d" % (e["path"], str(f[0])[:80], f[1], str(obs)[:80], e["inv"]), e["i"]))
    ix.r.setdefault("stats", {})["c02_deliveries"] = n
    return out


def final_sig(r: dict):
    f = r.get("final")
    if r.get("stop") != "terminal" or not isinstance(f, dict):
        return ("stop", r.get("stop"))
    if f.get("Status") == "SUCCEEDED":
        res = f.get("Result")
        if res == "" and r.get("exec_result"):
            res = r["exec_result"].get("payload")
        return ("SUCCEEDED", res)
    err = f.get("Error")
    if err is None and r.get("exec_result"):
        err = r["exec_result"].get("error")
    err = err or {}
    return ("FAILED", err.get("ErrorType"), err.get("ErrorMessage"))


# =============================================================================== C04
def mon_c04(ix: Index):
    out = []
    seen: dict[tuple, int] = {}
    n = 0
    for e in ix.trace:
        if e["kind"] != "fn_enter" or e.get("fnkind") != "step":
            continue
        node = ix.node_of(e["path"])
        if not node or node.get("sem") != "most":
            continue
        n += 1
        att = e.get("att")
        if e.get("st") != "STARTED":
            out.append(V("C04", "C04/entered-without-recorded-start/status-%s" % e.get("st"),
                         "at-most-once step %s entered while backend status is %s (attempt %s)" % (e["path"], e.get("st"), att), e["i"]))
        key = (e["path"], att)
        seen[key] = seen.get(key, 0) + 1
        if seen[key] > 1:
            out.append(V("C04", "C04/attempt-entered-twice/status-%s" % e.get("st"),
                         "at-most-once step %s entered %d times for attempt counter %s" % (e["path"], seen[key], att), e["i"]))
    ix.r.setdefault("stats", {})["c04_entries"] = n
    return out


# =============================================================================== C12
def mon_c12(ix: Index):
    out = []
    n = 0
    retries: dict[str, int] = {}
    decided: dict[tuple, dict] = {}
    for a in ix.applied:
        u = a.get("u")
        if u and u.get("Type") == "STEP" and u.get("Action") == "RETRY" and u.get("SubType") == "Step":
            d = (u.get("StepOptions") or {}).get("NextAttemptDelaySeconds")
            path = ix.id2path.get(u["Id"], "?")
            retries[path] = retries.get(path, 0) + 1
            n += 1
            if d is None or d < 1:
                out.append(V("C12", "C12/retry-delay-below-one", "RETRY for %s with delay %r" % (path, d), a["seq"]))
    for e in ix.trace:
        if e["kind"] == "strategy":
            n += 1
            want = (e.get("att") or 0) + 1
            if e["attempts"] != want:
                out.append(V("C12", "C12/strategy-attempt-count-wrong", "strategy for %s consulted with %d, backend has recorded %d retries" % (e["path"], e["attempts"], want - 1), e["i"]))
        if e["kind"] == "fn_enter" and e.get("fnkind") in ("step", "submitter") and e.get("st") == "PENDING":
            out.append(V("C12", "C12/attempt-before-timer", "%s entered while PENDING" % e["path"], e["i"]))
        # the decision of the strategy is on record before the step parks / raises
        if e["kind"] == "strategy":
            decided[(e["path"], e["inv"])] = e
        elif e["kind"] == "susp" and e.get("opkind") == "step" and (e["path"], e["inv"]) in decided:
            d = decided.pop((e["path"], e["inv"]))
            if d.get("retry") and e.get("st") not in ("PENDING", "READY"):
                out.append(V("C12", "C12/parked-before-retry-recorded", "%s suspended for its retry while the backend still holds it %s (no accepted RETRY record)" % (e["path"], e.get("st")), e["i"]))
        elif e["kind"] == "exc" and e.get("opkind") == "step" and (e["path"], e["inv"]) in decided:
            d = decided.pop((e["path"], e["inv"]))
            if not d.get("retry") and _is_final_error(e) and e.get("st") != "FAILED":
                out.append(V("C12", "C12/raised-before-failure-recorded", "%s raised its final error while the backend holds it %s" % (e["path"], e.get("st")), e["i"]))
    for path, node in ix.nodes.items():
        if node["k"] != "step":
            continue
        spec = node.get("retry")
        maxa = None
        if spec and spec.get("kind") == "config":
            maxa = spec["cfg"].get("max_attempts", 3)
        elif spec and spec.get("kind") == "preset":
            maxa = {"none": 1, "default": 6, "transient": 3, "resource_availability": 5, "critical": 10}[spec["name"]]
        elif spec and "decisions" in spec:
            dec = spec["decisions"]
            if dec[-1][0] == "stop":
                maxa = len(dec)
        if maxa is not None and retries.get(path, 0) > maxa - 1:
            out.append(V("C12", "C12/too-many-retries", "%s recorded %d retries, max_attempts %d" % (path, retries[path], maxa)))
        if ix.crashfree and ix.r.get("stop") == "terminal" and not ix.r["scenario"].get("faults") and maxa is not None:
            script = node.get("script") or [{"do": "ok"}]
            fails = 0
            for b in script:
                if b.get("do") == "fail":
                    fails += 1
                else:
                    break
            else:
                fails = 10**9
            entries = sum(1 for e in ix.trace if e["kind"] == "fn_enter" and e.get("fnkind") == "step" and e["path"] == path)
            reached = any(e["kind"] in ("ret", "exc") and e["path"] == path for e in ix.trace)
            if reached and not node.get("by_item") and "/b" not in path and entries != min(fails + 1, maxa):
                nonretry = spec and spec.get("kind") == "config" and (spec["cfg"].get("types") is not None or spec["cfg"].get("retryable_errors") is not None)
                if not nonretry:
                    out.append(V("C12", "C12/attempt-count-wrong", "%s entered %d times, expected min(%s+1,%d)" % (path, entries, fails, maxa)))
    ix.r.setdefault("stats", {})["c12_events"] = n
    return out


# =============================================================================== C13
def mon_c13(ix: Index):
    out = []
    n = 0
    last_new: dict[str, str] = {}
    last_att: dict[str, int] = {}
    for e in ix.trace:
        if e["kind"] == "fn_enter" and e.get("fnkind") == "check":
            n += 1
            path = e["path"]
            node = ix.nodes.get(path) or {}
            att = (e.get("att") or 0) + 1
            from dw.canon import canon

            if att == 1:
                want = canon(node.get("init", 0))
                if e.get("state") != want:
                    out.append(V("C13", "C13/first-poll-not-initial-state", "%s poll 1 got %s want %s" % (path, e.get("state"), want), e["i"]))
            else:
                want = last_new.get(path)
                if want is not None and last_att.get(path) == att - 1 and e.get("state") != want:
                    out.append(V("C13", "C13/state-not-threaded", "%s poll %d got %s, previous poll returned %s" % (path, att, e.get("state"), want), e["i"]))
            if e.get("st") == "PENDING":
                out.append(V("C13", "C13/poll-before-timer", "%s polled while PENDING" % path, e["i"]))
        elif e["kind"] == "fn_exit" and e.get("fnkind") == "check" and e.get("outcome") == "ok":
            last_new[e["path"]] = e.get("new")
            last_att[e["path"]] = (e.get("att") or 0) + 1
        elif e["kind"] == "wfc_strategy":
            n += 1
            if e.get("state") != last_new.get(e["path"]):
                out.append(V("C13", "C13/strategy-sees-wrong-state", "%s strategy got %s, check returned %s" % (e["path"], e.get("state"), last_new.get(e["path"])), e["i"]))
            if e.get("attempt") != (e.get("att") or 0) + 1:
                out.append(V("C13", "C13/strategy-attempt-wrong", "%s strategy attempt %s, backend retries %s" % (e["path"], e.get("attempt"), e.get("att")), e["i"]))
            e["_decided"] = True
        elif e["kind"] == "ret" and e.get("opkind") == "wfc":
            n += 1
    # decisions vs records: walk per path in order
    pend: dict[str, dict] = {}
    for e in ix.trace:
        if e["kind"] == "wfc_strategy":
            pend[e["path"]] = e
        elif e["kind"] == "api" and e.get("applied"):
            for u in e.get("updates") or []:
                if u.get("SubType") == "WaitForCondition" and u.get("Action") in ("RETRY", "SUCCEED"):
                    path = ix.id2path.get(u["Id"])
                    d = pend.pop(path, None)
                    if d is None:
                        continue
                    if u["Action"] == "RETRY":
                        delay = (u.get("StepOptions") or {}).get("NextAttemptDelaySeconds")
                        if not d["cont"]:
                            out.append(V("C13", "C13/retry-after-stop-decision", "%s RETRY although strategy said stop" % path, e["i"]))
                        if delay is None or delay < 1:
                            out.append(V("C13", "C13/retry-delay-below-one", "%s RETRY delay %r" % (path, delay), e["i"]))
                    elif d["cont"]:
                        out.append(V("C13", "C13/succeed-after-continue-decision", "%s SUCCEED although strategy said continue" % path, e["i"]))
        elif e["kind"] == "susp" and e.get("opkind") == "wfc":
            d = pend.get(e["path"])
            if d is not None and d["inv"] == e["inv"]:
                out.append(V("C13", "C13/suspended-before-retry-recorded", "%s suspended, continue decision not recorded" % e["path"], e["i"]))
        elif e["kind"] == "ret" and e.get("opkind") == "wfc":
            ln = last_new.get(e["path"])
            first_inv = any(x["kind"] == "fn_exit" and x.get("fnkind") == "check" and x["path"] == e["path"] and x["inv"] == e["inv"] for x in ix.by_inv.get(e["inv"], []))
            if first_inv and ln is not None and e.get("val") != ln:
                out.append(V("C13", "C13/result-not-last-state", "%s returned %s, last state %s" % (e["path"], e.get("val"), ln), e["i"]))
    # a completed condition is never polled again, and its result is handed over only once its completion is on record
    completed: dict[str, int] = {}
    for e in ix.trace:
        if e["kind"] == "ret" and e.get("opkind") == "wfc":
            if e["path"] not in completed:
                completed[e["path"]] = e["i"]
            if e.get("st") != "SUCCEEDED":
                out.append(V("C13", "C13/result-before-completion-recorded", "%s returned its result while the backend holds it %s" % (e["path"], e.get("st")), e["i"]))
        elif e["kind"] == "fn_enter" and e.get("fnkind") == "check" and e["path"] in completed and not e.get("late"):
            out.append(V("C13", "C13/completed-condition-polled-again", "%s delivered its result (event %d) yet its check runs again in invocation %d (backend status %s)"
                         % (e["path"], completed[e["path"]], e["inv"], e.get("st")), e["i"]))
    # a failed condition (its check raised and the call delivered that failure to the workflow) is never polled again
    raised_in: dict[str, int] = {}  # path -> invocation in which its check raised
    failed: dict[str, int] = {}  # path -> trace index at which the failure was delivered to user code
    for e in ix.trace:
        if e["kind"] == "fn_exit" and e.get("fnkind") == "check" and str(e.get("outcome", "")).startswith("raise:"):
            raised_in[e["path"]] = e["inv"]
        elif e["kind"] == "exc" and e.get("opkind") == "wfc" and raised_in.get(e["path"]) == e["inv"] and e["path"] not in failed:
            failed[e["path"]] = e["i"]
            n += 1
        elif e["kind"] == "fn_enter" and e.get("fnkind") == "check" and e["path"] in failed:
            out.append(V("C13", "C13/failed-condition-polled-again",
                         "%s: its check raised and the failure was delivered to the workflow (event %d), yet it is polled again in invocation %d (backend status %s)"
                         % (e["path"], failed[e["path"]], e["inv"], e.get("st")), e["i"]))
    ix.r.setdefault("stats", {})["c13_events"] = n
    return out


# =============================================================================== C14
CB_FAIL = ("FAILED", "TIMED_OUT", "CANCELLED", "STOPPED")


def _decodable(sd: str, raw: str) -> bool:
    """Can the interpreter's serdes `sd` decode the payload an external party delivered? (reference for C14)"""
    import json as _json

    try:
        if sd in ("json", "utf8json"):
            _json.loads(raw)
        elif sd == "tagged":
            if not raw.startswith("TAG:"):
                return False
            _json.loads(raw[4:])
        elif sd == "ctxbound":
            return False  # a payload written by somebody else is never bound to this operation
        return True
    except ValueError:
        return False


def mon_c14(ix: Index):  # noqa: C901, PLR0912
    import json as _json

    from dw.canon import canon

    out = []
    n = 0
    delivered: dict[str, dict] = {}  # op name -> world delivery
    for e in ix.trace:
        if e["kind"] == "world" and e.get("what") == "external":
            delivered[e["name"]] = e
    cbids: dict[str, str] = {}
    starts: dict[str, int] = {}
    for a in ix.applied:
        u = a.get("u")
        if u and u.get("Type") == "CHAINED_INVOKE" and u.get("Action") == "START":
            path = ix.id2path.get(u["Id"], "?")
            starts[path] = starts.get(path, 0) + 1
            node = ix.nodes.get(path)
            if node:
                n += 1
                cfg = node.get("cfg") or {}
                sp = cfg.get("serdes_payload")
                want = _json.dumps(node.get("payload"))
                if sp == "tagged":
                    want = "TAG:" + want
                elif sp == "utf8json":
                    want = _json.dumps(node.get("payload"), ensure_ascii=False)
                got = u.get("Payload")
                if (got or None) != (want or None):
                    out.append(V("C14", "C14/invoke-start-payload-wrong", "%s START carried %r, expected %r" % (path, str(got)[:80], want[:80]), a["seq"]))
                opts = u.get("ChainedInvokeOptions") or {}
                if opts.get("FunctionName") != node["fn"]:
                    out.append(V("C14", "C14/invoke-start-function-name-wrong", "%s FunctionName %r" % (path, opts.get("FunctionName")), a["seq"]))
                if cfg.get("tenant") is not None and opts.get("TenantId") != cfg["tenant"]:
                    out.append(V("C14", "C14/invoke-start-tenant-missing", "%s TenantId %r" % (path, opts.get("TenantId")), a["seq"]))
    for path, c in starts.items():
        if c > 1:
            out.append(V("C14", "C14/invoke-started-more-than-once", "%s sent START %d times" % (path, c)))
    for e in ix.trace:
        k = e["kind"]
        ok_ = e.get("opkind")
        if ok_ not in ("cb", "invoke", "wfcb"):
            continue
        path = e["path"]
        node = ix.nodes.get(path) or {}
        cfg = node.get("cfg") or {}
        if ok_ == "cb" and e.get("phase") == "create":
            if k == "exc":
                out.append(V("C14", "C14/create-callback-raised/%s" % e.get("st"), "%s create_callback raised %s (status %s)" % (path, e["cls"], e.get("st")), e["i"]))
            elif k == "ret":
                n += 1
                want = canon(e.get("cbid"))
                if e.get("val") != want:
                    out.append(V("C14", "C14/callback-id-not-backend-issued", "%s returned %s, backend issued %s" % (path, e.get("val"), want), e["i"]))
                if cbids.setdefault(path, e["val"]) != e["val"]:
                    out.append(V("C14", "C14/callback-id-changed-across-invocations", "%s: %s then %s" % (path, cbids[path], e["val"]), e["i"]))
            continue
        name = path if ok_ != "wfcb" else path + " create callback id"
        d = delivered.get(name)
        if k == "susp":
            n += 1
            # only a status the SDK must already know (the one the invocation started with) is held against it: a completion
            # that lands while the call is in progress may not have reached the SDK yet
            st0 = next((x["statuses"].get(e.get("oid")) for x in ix.by_inv.get(e["inv"], []) if x["kind"] == "inv_start"), None)
            known_to_sdk = st0 == e.get("st")
            if not known_to_sdk and e.get("st") in TERMINAL:
                # ... or a completion delivered inside the response of an API call whose synchronous caller - this very thread -
                # has since returned from its operation: responses are merged in order before waiters are released, so the
                # SDK's state held the completion before this call was made
                nm = path if ok_ != "wfcb" else path + " create callback id"
                w = next((x for x in ix.by_inv.get(e["inv"], []) if x["kind"] == "world" and x.get("what") == "external" and x.get("name") == nm), None)
                mycall = next((x for x in reversed(ix.by_inv.get(e["inv"], [])) if x["i"] < e["i"] and x["kind"] == "call" and x.get("path") == path and x.get("phase") == e.get("phase")), None)
                if w is not None and mycall is not None:
                    for x in ix.by_inv.get(e["inv"], []):
                        if x["kind"] == "ret" and x.get("t") == e.get("t") and w["i"] < x["i"] < mycall["i"] and x.get("opkind") in ("step", "wfc", "child") \
                                and any(a2.get("u") and a2["u"]["Id"] == x.get("oid") and a2["seq"] >= w.get("aseq", 10**12) for a2 in ix.applied):
                            known_to_sdk = True
                            break
            if ok_ != "wfcb" and e.get("st") != "STARTED" and known_to_sdk:
                out.append(V("C14", "C14/suspended-although-not-outstanding/%s-%s" % (ok_, e.get("st")), "%s suspended with status %s" % (path, e.get("st")), e["i"]))
        elif k == "ret" and ok_ in ("cb", "invoke"):
            n += 1
            if e.get("st") != "SUCCEEDED":
                continue  # C03 reports it
            raw = d.get("result") if d else None
            sd = cfg.get("serdes") if ok_ == "cb" else (cfg.get("serdes_result") or "json")
            try:
                if raw is None:
                    want = canon(None)
                elif sd in ("json", "utf8json"):
                    want = canon(_json.loads(raw))
                elif sd == "tagged":
                    want = canon(_json.loads(raw[4:]))
                else:
                    want = canon(raw)
            except Exception:  # noqa: BLE001
                want = None
            if want is not None and e.get("val") != want:
                out.append(V("C14", "C14/%s-result-not-delivered-payload" % ok_, "%s returned %s, external party delivered %r" % (path, str(e.get("val"))[:80], str(raw)[:80]), e["i"]))
        elif k == "ret" and ok_ == "wfcb" and d is not None and d.get("status") == "SUCCEEDED" and not cfg.get("serdes"):
            # wait_for_callback hands the delivered payload through - in the invocation that saw the completion and in every later one
            n += 1
            raw = d.get("result")
            if raw and e.get("val") != canon(raw):
                out.append(V("C14", "C14/wfcb-result-not-delivered-payload", "%s returned %s, external party delivered %r" % (path, str(e.get("val"))[:80], str(raw)[:80]), e["i"]))
        elif k == "exc" and ok_ in ("cb", "invoke"):
            mro = e.get("mro") or []
            if e.get("st") == "SUCCEEDED" and e.get("phase") != "create" and "InvocationError" not in mro and mro and mro[0] != "BaseException":
                n += 1
                raw = d.get("result") if d else None
                sd = cfg.get("serdes") if ok_ == "cb" else (cfg.get("serdes_result") or "json")
                if raw is not None and sd is not None and not _decodable(sd, raw):
                    if e["cls"] != "ExecutionError":
                        out.append(V("C14", "C14/%s-undecodable-payload-wrong-error/%s" % (ok_, e["cls"]), "%s: the delivered payload cannot be decoded by the configured serdes, result() raised %s" % (path, e["cls"]), e["i"]))
                    continue  # the configured serdes cannot decode what was delivered: result() has to raise, every time
                out.append(V("C14", "C14/%s-succeeded-but-call-raised/%s" % (ok_, e["cls"]), "%s is SUCCEEDED in the backend but the call raised %s: %s" % (path, e["cls"], str(e.get("msg"))[:80]), e["i"]))
                continue
            if ok_ == "cb":
                if e["cls"] == "CallbackError":
                    n += 1
                    if e.get("st") not in CB_FAIL:
                        out.append(V("C14", "C14/callback-error-without-failed-status/%s" % e.get("st"), "%s raised CallbackError with status %s" % (path, e.get("st")), e["i"]))
                    elif d is not None:
                        wantmsg = ((d.get("error") or {}).get("ErrorMessage")) or "Callback failed"
                        if e.get("msg") != wantmsg:
                            out.append(V("C14", "C14/callback-error-message-wrong", "%s message %r, delivered %r" % (path, e.get("msg"), wantmsg), e["i"]))
                elif e.get("st") in CB_FAIL and "InvocationError" not in mro and "BaseException" != mro[0]:
                    out.append(V("C14", "C14/callback-failure-raised-wrong-class/%s" % e["cls"], "%s raised %s for status %s" % (path, e["cls"], e.get("st")), e["i"]))
            elif e["cls"] == "CallableRuntimeError":
                n += 1
                if e.get("st") not in ("FAILED", "TIMED_OUT", "STOPPED"):
                    out.append(V("C14", "C14/invoke-error-without-failed-status/%s" % e.get("st"), "%s raised with status %s" % (path, e.get("st")), e["i"]))
                elif d is not None:
                    err = d.get("error") or {}
                    if err and (e.get("msg") != str(err.get("ErrorMessage")) or e.get("etype") != err.get("ErrorType")):
                        out.append(V("C14", "C14/invoke-error-not-recorded-error", "%s raised (%r,%r), recorded %r" % (path, e.get("msg"), e.get("etype"), err), e["i"]))
    # a terminal callback/invoke must not leave its caller suspended, and a failed one must raise
    for inv, evs in ix.by_inv.items():
        start = next((x for x in evs if x["kind"] == "inv_start"), None)
        if not start:
            continue
        for e in evs:
            if e["kind"] == "ret" and e.get("opkind") in ("cb", "invoke") and e.get("phase") != "create" and start["statuses"].get(e.get("oid")) in CB_FAIL:
                out.append(V("C14", "C14/failed-%s-returned-value" % e["opkind"], "%s was %s but returned %s" % (e["path"], start["statuses"][e["oid"]], e.get("val")), e["i"]))
    ix.r.setdefault("stats", {})["c14_events"] = n
    return out


# =============================================================================== C17
def mon_c17(ix: Index):  # noqa: C901, PLR0912
    out = []
    n = 0
    order = {p: i for i, (p, _n) in enumerate(walk(ix.prog["body"]))}
    arn = "arn:verif:exec/0"
    # units: logs inside map/parallel branches are not judged (blocks are treated as units)

    def in_block(path):
        parts = path.split("/")
        for i in range(1, len(parts)):
            node = ix.nodes.get("/".join(parts[:i]))
            if node is not None and node["k"] in ("par", "map"):
                return True
        return False

    for inv, evs in ix.by_inv.items():
        start = next((x for x in evs if x["kind"] == "inv_start"), None)
        if not start:
            continue
        term_pos = []
        for oid, st in start["statuses"].items():
            if st in TERMINAL:
                p = ix.id2path.get(oid)
                if p is None:
                    continue
                base = p.split("@")[0]
                # the operation's own position; inner SDK-made ops of a wait_for_callback sit at the unit's position
                if base in order:
                    term_pos.append((order[base], p))
                else:
                    m = re.match(r"^(.*)/b\d+$", base)
                    if m and m.group(1) in order:
                        term_pos.append((order[m.group(1)], p))
        last_done = max(term_pos)[0] if term_pos else -1
        last_done_path = max(term_pos)[1] if term_pos else None
        # position of the furthest operation the earlier invocations reached (any status): log calls between the last completed
        # and the furthest started operation were already run once but precede no completed operation - the statement is silent
        # about them, so they are not judged
        known_pos = []
        for oid in start["statuses"]:
            p = ix.id2path.get(oid)
            if p is None:
                continue
            base = p.split("@")[0]
            while base and base not in order:
                base = base.rsplit("/", 1)[0] if "/" in base else ""
            if base in order:
                # an operation that was started but not completed may have run any part of its own extent before
                ext = max(v for q, v in order.items() if q == base or q.startswith(base + "/"))
                known_pos.append(ext)
        last_known = max(known_pos) if known_pos else -1
        history_nonempty = any(st for oid, st in start["statuses"].items() if ix.kind.get(oid) is not None or oid in ix.id2path) or len(start["statuses"]) > 1
        calls = [e for e in evs if e["kind"] == "logcall"]
        recs = [e for e in evs if e["kind"] == "logrec"]
        # pair each call with the record (if any) that follows it before the next call on the same thread
        for c in calls:
            path = c["path"]
            if in_block(path):
                continue
            pos = order.get(path)
            if pos is None:
                continue
            if c.get("killed") or c.get("late"):
                continue
            if not any(x["i"] > c["i"] and x.get("t") == c.get("t") and not x.get("late") for x in evs if "t" in x):
                continue  # the process died right after this call: no verdict
            n += 1
            emitted = next((r for r in recs if r["i"] > c["i"] and r.get("t") == c.get("t") and r.get("msg") == c["tag"]
                            and not any(c2["i"] > c["i"] and c2["i"] < r["i"] and c2.get("t") == c.get("t") for c2 in calls)), None)
            expect_silent = pos < last_done
            if not expect_silent:
                judged_audible = pos > last_known
                if not judged_audible and c.get("where") == "step" and pos > last_done:
                    # a log call inside a step attempt that has never run before (new step, or a retry attempt whose timer fired)
                    st0 = start["statuses"].get(ix.path2id.get(path))
                    judged_audible = st0 in (None, "READY")
                if not judged_audible:
                    n -= 1
                    continue
            node = ix.nodes.get(last_done_path.split("@")[0]) if last_done_path else None
            how = "first-invocation" if len(start["statuses"]) <= 1 else "resumed"
            if expect_silent and emitted is not None:
                fp = start.get("first_page")
                cause = "first-page-%s" % ("execution-op-only" if fp == 1 else ("empty" if fp == 0 else "other"))
                out.append(V("C17", "C17/replayed-log-emitted/%s" % cause,
                             "invocation %d: log %s (position %d) precedes completed operation %s yet was emitted (first_page=%s)" % (inv, c["tag"], pos, last_done_path, fp), c["i"]))
            elif not expect_silent and emitted is None:
                # classify by what kind of completed history exists
                kinds = set()
                for _pos, p in term_pos:
                    # inner operations of a context that was itself completed at invocation start are never visited on replay
                    a = ctx_path(p)
                    while a is not None:
                        if start["statuses"].get(ix.path2id.get(a)) in TERMINAL:
                            if not (ix.r["scenario"].get("world") or {}).get("prune_completed"):
                                kinds.add("inner-op-of-completed-context")  # (a pruned history does not list them, so they cannot be the cause)
                            break
                        a = ctx_path(a)
                    if start["statuses"].get(ix.path2id.get(p)) == "FAILED":
                        kinds.add("failed-op-caught")
                # a failure recorded and caught earlier in this very invocation leaves the same unvisited failed operation
                if len(start["statuses"]) > 1 and any(x["kind"] == "caught" and x["i"] < c["i"] for x in evs):
                    kinds.add("failed-op-caught")
                cause = "+".join(sorted(kinds))
                if not cause:
                    if how == "first-invocation":
                        cause = "first-invocation"
                    elif not term_pos:
                        cause = "resumed-history-without-completed-operation"
                    else:
                        cause = "flat-history"
                out.append(V("C17", "C17/new-log-suppressed/%s" % cause,
                             "invocation %d: log %s (position %d) is past the last completed operation (%s at %d) yet nothing was emitted" % (inv, c["tag"], pos, last_done_path, last_done), c["i"]))
            if emitted is not None:
                ex = emitted.get("extra") or {}
                if ex.get("executionArn") != arn:
                    out.append(V("C17", "C17/record-without-execution-arn", "record %s extra %r" % (c["tag"], ex), emitted["i"]))
                if c.get("where") == "step":
                    oid = ix.path2id.get(path)
                    if oid and ex.get("operationId") != oid:
                        out.append(V("C17", "C17/step-record-wrong-operation-id", "record %s operationId %r" % (c["tag"], ex.get("operationId")), emitted["i"]))
                    if ex.get("operationName") != path:
                        out.append(V("C17", "C17/step-record-wrong-operation-name", "record %s operationName %r" % (c["tag"], ex.get("operationName")), emitted["i"]))
                    if not isinstance(ex.get("attempt"), int):
                        out.append(V("C17", "C17/step-record-without-attempt", "record %s attempt %r" % (c["tag"], ex.get("attempt")), emitted["i"]))
                want_parent = ctx_path(path)
                if want_parent is not None:
                    pid = ix.path2id.get(want_parent)
                    if pid and ex.get("parentId") != pid:
                        out.append(V("C17", "C17/record-wrong-parent-id", "record %s parentId %r, enclosing context %s" % (c["tag"], ex.get("parentId"), want_parent), emitted["i"]))
                elif ex.get("parentId"):
                    out.append(V("C17", "C17/record-has-parent-id-at-root", "record %s" % c["tag"], emitted["i"]))
    ix.r.setdefault("stats", {})["c17_logcalls"] = n
    return out


# =============================================================================== C18
def expected_checkpoint_raise(err: dict) -> bool:
    """Classification pinned by the repository's own tests: 4xx except 429 and except 'Invalid Checkpoint Token' => raise."""
    if err.get("kind") != "client":
        return False
    st = err.get("status", 500)
    if not (400 <= st < 500) or st == 429:
        return False
    return not (err.get("code") == "InvalidParameterValueException" and str(err.get("message", "")).startswith("Invalid Checkpoint Token"))


def response_over_limit(v):
    """None, or (mechanism, response bytes, payload characters) when the outcome dict cannot be delivered: the Python 3.12 Lambda
    runtime encodes the returned dict as JSON text with non-ASCII characters kept (UTF-8)."""
    import json as _json

    if not isinstance(v, dict) or v.get("Status") not in ("SUCCEEDED", "FAILED"):
        return None
    size = len(_json.dumps(v, ensure_ascii=False).encode("utf-8", "surrogatepass"))
    if size <= RESP_LIMIT + 200:
        return None
    inner = v.get("Result") if v.get("Status") == "SUCCEEDED" else _json.dumps(v.get("Error") or {}, ensure_ascii=False)
    inner = inner or ""
    if len(inner) > RESP_LIMIT:
        why = "payload-itself-over-limit"
    elif len(inner.encode("utf-8", "surrogatepass")) > len(inner):
        why = "non-ascii-payload-counted-in-characters"
    else:
        why = "escape-doubling-when-the-response-is-encoded"
    return why, size, len(inner)


def mon_c18(ix: Index):  # noqa: C901, PLR0912
    import json as _json

    out = []
    n = 0
    sc = ix.r["scenario"]
    expect = sc.get("expect")
    ends = [e for e in ix.trace if e["kind"] == "inv_end_summary"]
    for e in ends:
        if e.get("killed") or e.get("died"):
            continue
        oc = e.get("outcome")
        if oc is None:
            continue
        n += 1
        if e.get("dex_alive"):
            out.append(V("C18", "C18/handler-thread-alive-after-outcome", "threads %s alive after the wrapper finished" % e["dex_alive"], e["i"]))
        if oc["kind"] == "return":
            v = oc["value"]
            if not isinstance(v, dict) or v.get("Status") not in ("SUCCEEDED", "FAILED", "PENDING"):
                out.append(V("C18", "C18/malformed-outcome", "returned %r" % (str(v)[:100],), e["i"]))
                continue
            st = v["Status"]
            er = e.get("exec_result")
            why = response_over_limit(v)
            if why:
                out.append(V("C18", "C18/outcome-exceeds-response-limit/%s" % why[0], "the returned outcome takes %d bytes in the response (payload text %d characters)" % why[1:], e["i"]))
            if st == "SUCCEEDED":
                if "Error" in v:
                    out.append(V("C18", "C18/succeeded-with-error", str(v)[:120], e["i"]))
                res = v.get("Result")
                if res is None:
                    out.append(V("C18", "C18/succeeded-without-result", str(v)[:120], e["i"]))
                elif res == "":
                    if not (er and er.get("action") == "SUCCEED"):
                        out.append(V("C18", "C18/succeeded-empty-result-without-execution-record", "no EXECUTION SUCCEED applied", e["i"]))
                else:
                    try:
                        _json.loads(res)
                    except (TypeError, ValueError):
                        out.append(V("C18", "C18/succeeded-result-not-json", str(res)[:80], e["i"]))
            elif st == "FAILED":
                if "Result" in v:
                    out.append(V("C18", "C18/failed-with-result", str(v)[:120], e["i"]))
                err = v.get("Error")
                if err is None:
                    if not (er and er.get("action") == "FAIL"):
                        out.append(V("C18", "C18/failed-without-error-or-execution-record", str(v)[:120], e["i"]))
                elif not isinstance(err, dict) or not (set(err) <= {"ErrorMessage", "ErrorType", "ErrorData", "StackTrace"}):
                    out.append(V("C18", "C18/failed-error-object-malformed", str(err)[:120], e["i"]))
                else:
                    for fld in ("ErrorMessage", "ErrorType", "ErrorData"):
                        if err.get(fld) is not None and not isinstance(err[fld], str):
                            out.append(V("C18", "C18/failed-error-object-malformed/%s-not-a-string" % fld, "%s=%r" % (fld, err[fld]), e["i"]))
                    st_ = err.get("StackTrace")
                    if st_ is not None and not (isinstance(st_, list) and all(isinstance(x, str) for x in st_)):
                        out.append(V("C18", "C18/failed-error-object-malformed/StackTrace-not-a-list-of-strings", "%r" % (st_,), e["i"]))
            elif "Result" in v or "Error" in v:
                out.append(V("C18", "C18/pending-with-payload", str(v)[:120], e["i"]))
        else:
            mro = oc.get("mro") or []
            allowed = "InvocationError" in mro
            if oc["cls"] == "CheckpointError" and oc.get("retriable") is False:
                allowed = False
            if sc.get("bad_event") is not None or sc.get("bad_input"):
                allowed = allowed or oc["cls"] in ("ExecutionError", "DurableExecutionsError", "JSONDecodeError", "KeyError", "TypeError", "AttributeError", "ValueError")
            if oc["cls"] in ("SystemExit", "KeyboardInterrupt"):
                continue  # user code asked the interpreter to exit: outside the statement's "ordinary user exceptions", not judged
            if not allowed:
                out.append(V("C18", "C18/raised-for-non-retriable/%s" % oc["cls"], "wrapper raised %s: %s" % (oc["cls"], oc.get("msg", "")[:100]), e["i"]))
    if ix.r.get("stop") == "hang":
        h = next((x for x in ix.trace if x["kind"] == "hang"), {})
        why = "base-exception-in-branch" if any(x["kind"] == "fn_exit" and str(x.get("outcome", "")).startswith("raise:") and x["outcome"].split(":")[1] in ("SystemExit", "KeyboardInterrupt", "BackgroundThreadError") and "/b" in x["path"] for x in ix.trace) else "other"
        if h.get("verdict") == "hang":
            if why == "other" and any(x["kind"] == "api" and x.get("op") == "get_state" and x.get("fault") for x in ix.trace):
                why = "page-fetch-failed"
            out.append(V("C18", "C18/invocation-never-ends/%s" % why, "invocation hung: every thread parked, no API call in flight"))
    if expect and ends:
        # the expectation is about the invocation in which the behaviour occurs: the one hit by the injected fault,
        # otherwise the first invocation that reaches the behaviour (the last one before any Lambda retry changes history)
        fault_inv = next((e["inv"] for e in ix.trace if e["kind"] == "api" and e.get("fault")), None)
        if fault_inv is not None:
            last = next((e for e in ends if e["inv"] == fault_inv and e.get("outcome")), None)
        elif expect["kind"] == "raise":
            last = next((e for e in ends if e.get("outcome") and e["outcome"]["kind"] == "raise"), None) or next((e for e in reversed(ends) if e.get("outcome")), None)
        else:
            last = next((e for e in reversed(ends) if e.get("outcome")), None)
        if sc.get("faults") and fault_inv is None:
            last = None  # the fault never fired (call index beyond the program): nothing to classify
        if last is not None and ix.r.get("stop") not in ("hang", "spin"):
            oc = last["outcome"]
            got_kind = "raise" if oc["kind"] == "raise" else (oc["value"].get("Status") if isinstance(oc["value"], dict) else "?")
            if got_kind != expect["kind"]:
                out.append(V("C18", "C18/misclassified/expected-%s-got-%s/%s" % (expect["kind"], got_kind, expect.get("why", "")),
                             "expected %s, got %s (%s)" % (expect, got_kind, str(oc)[:160]), last["i"]))
            elif expect["kind"] == "FAILED" and expect.get("etype"):
                err = (oc["value"].get("Error") or (last.get("exec_result") or {}).get("error") or {})
                if err.get("ErrorType") != expect["etype"]:
                    out.append(V("C18", "C18/failed-with-wrong-error-type/%s" % expect.get("why", ""), "ErrorType %r, expected %r" % (err.get("ErrorType"), expect["etype"]), last["i"]))
            elif expect["kind"] == "raise" and expect.get("cls") and oc["cls"] != expect["cls"]:
                out.append(V("C18", "C18/raised-wrong-class/%s" % expect.get("why", ""), "raised %s expected %s" % (oc["cls"], expect["cls"]), last["i"]))
    ix.r.setdefault("stats", {})["c18_outcomes"] = n
    return out


# =============================================================================== C06
def mon_c06(ix: Index):  # noqa: C901, PLR0912
    out = []
    fail = next((e for e in ix.trace if e["kind"] == "api" and e.get("fault")), None)
    if fail is None:
        ix.r.setdefault("stats", {})["c06_failures"] = 0
        return out
    inv = fail["inv"]
    evs = ix.by_inv.get(inv, [])
    after = [e for e in evs if e["i"] > fail["i"]]
    who = role_of(fail.get("t", ""))
    ups = fail.get("updates") or []
    shape = "empty-refresh" if not ups else ("branch" if any("/b" in (u.get("Name") or "") or (u.get("Name") or "").startswith(("parallel-branch", "map-item")) for u in ups) else "main")
    ctx = "%s" % shape
    for e in after:
        if e["kind"] == "api" and not e.get("late"):
            out.append(V("C06", "C06/api-call-after-failure/%s" % e.get("op"), "API call #%s issued after call #%s failed" % (e.get("n"), fail["n"]), e["i"]))
            break
    for e in after:
        if e["kind"] == "ret" and e.get("phase") != "create" and e.get("st") not in TERMINAL:
            out.append(V("C06", "C06/unrecorded-result-delivered-after-failure/%s" % e.get("opkind"), "%s returned a value, backend status %s" % (e["path"], e.get("st")), e["i"]))
        elif e["kind"] == "exc" and _is_final_error(e) and (e.get("st") not in TERMINAL or e.get("st") == "SUCCEEDED"):
            out.append(V("C06", "C06/unrecorded-error-delivered-after-failure/%s" % e.get("opkind"), "%s raised %s, backend status %s" % (e["path"], e["cls"], e.get("st")), e["i"]))
        elif e["kind"] == "fn_enter" and e.get("fnkind") == "step":
            node = ix.node_of(e["path"])
            if node and node.get("sem") == "most" and e.get("st") != "STARTED":
                out.append(V("C06", "C06/at-most-once-entered-without-start-after-failure", "%s entered with backend status %s" % (e["path"], e.get("st")), e["i"]))
    # ... and none was entered BEFORE the failing call either while its START was only queued (the record then dies with that call)
    for e in evs:
        if e["i"] < fail["i"] and e["kind"] == "fn_enter" and e.get("fnkind") == "step" and not e.get("late"):
            node = ix.node_of(e["path"])
            if node and node.get("sem") == "most" and e.get("st") != "STARTED":
                started_later = any(a.get("u") and a["u"]["Id"] == e.get("oid") and a["u"]["Action"] == "START" and a["seq"] > e.get("aseq", 0) and a["inv"] == inv for a in ix.applied)
                if not started_later:
                    out.append(V("C06", "C06/at-most-once-entered-without-start-after-failure", "%s entered with backend status %s, its START was still queued when the call carrying it failed" % (e["path"], e.get("st")), e["i"]))
    end = next((x for x in evs if x["kind"] == "inv_end_summary"), None)
    hang = next((x for x in evs if x["kind"] == "hang"), None)
    spin = next((x for x in evs if x["kind"] == "spin"), None)
    if hang is not None:
        if hang.get("verdict") == "hang":
            out.append(V("C06", "C06/hang-after-checkpoint-failure/%s" % ctx, "failing call #%s (%s, issued for %s updates): invocation never terminates; every thread parked" % (fail["n"], fail["fault"]["err"].get("code") or fail["fault"]["err"].get("cls"), shape), hang["i"]))
    elif spin is not None:
        out.append(V("C06", "C06/spin-after-checkpoint-failure/%s" % ctx, spin.get("why", ""), spin["i"]))
    elif end is not None and end.get("outcome") is not None:
        oc = end["outcome"]
        want_raise = expected_checkpoint_raise(fail["fault"]["err"])
        if oc["kind"] == "return":
            st = oc["value"].get("Status") if isinstance(oc["value"], dict) else None
            if st in ("SUCCEEDED", "PENDING"):
                out.append(V("C06", "C06/%s-after-checkpoint-failure/%s" % (st.lower(), ctx), "invocation reported %s although API call #%s failed" % (st, fail["n"]), end["i"]))
            elif fail.get("op") == "get_state":
                pass  # a failed page fetch of a checkpoint response: only fail-stop is judged, not the classification
            elif st == "FAILED":
                et = (oc["value"].get("Error") or {}).get("ErrorType")
                if want_raise:
                    out.append(V("C06", "C06/failed-instead-of-raise-for-retriable-error", "returned FAILED(%s) for %s" % (et, fail["fault"]["err"]), end["i"]))
                elif et != "CheckpointError":
                    out.append(V("C06", "C06/failed-with-wrong-error-type/%s" % et, "FAILED with ErrorType %s after checkpoint failure" % et, end["i"]))
        elif fail.get("op") != "get_state":
            if not want_raise:
                out.append(V("C06", "C06/raised-instead-of-failed-for-non-retriable-error/%s" % oc["cls"], "raised %s for %s" % (oc["cls"], fail["fault"]["err"]), end["i"]))
            elif oc["cls"] != "CheckpointError":
                out.append(V("C06", "C06/raised-wrong-class/%s" % oc["cls"], "raised %s" % oc["cls"], end["i"]))
    ix.r.setdefault("stats", {})["c06_failures"] = 1
    return out


def role_of(t: str) -> str:
    if t.startswith("dex-handler"):
        return "main"
    if t.startswith("ThreadPoolExecutor"):
        return "pool"
    if t.startswith("Thread-"):
        return "timer"
    return "other"


# =============================================================================== C16
CKPT_LIMIT = 256 * 1024
RESP_LIMIT = 6 * 1024 * 1024 - 50


def mon_c16(ix: Index):  # noqa: C901, PLR0912
    out = []
    n = 0
    rc_ctx: dict[str, int] = {}  # ctx id -> seq of its SUCCEED with ReplayChildren
    for a in ix.applied:
        u = a.get("u")
        if not u:
            continue
        if u.get("Type") == "CONTEXT" and u.get("Action") == "SUCCEED":
            n += 1
            pl = u.get("Payload") or ""
            nbytes = len(pl.encode("utf-8", "surrogatepass"))
            path = ix.id2path.get(u["Id"], "?")
            rc = bool((u.get("ContextOptions") or {}).get("ReplayChildren"))
            if nbytes > CKPT_LIMIT:
                how = "chars-within-limit-bytes-over" if len(pl) <= CKPT_LIMIT else "over-limit"
                out.append(V("C16", "C16/context-payload-over-256KB/%s" % how, "%s checkpointed %d bytes (%d chars), ReplayChildren=%s" % (path, nbytes, len(pl), rc), a["seq"]))
            node = ix.nodes.get(path)
            want_big = None
            if node is not None and isinstance(node.get("result"), dict) and "big" in node["result"]:
                ch = node["result"].get("ch", "x")
                want_big = (node["result"]["big"] * len(ch.encode("utf-8")) + 2) > CKPT_LIMIT
            else:
                m = re.match(r"^(.*)/b(\d+)$", path)
                if m:
                    pn = ix.nodes.get(m.group(1))
                    if pn is not None:
                        bn = (pn.get("per_item") or pn.get("branches") or [pn] * 99)
                        bnode = bn[int(m.group(2))] if pn["k"] == "par" or pn.get("per_item") else pn
                        if isinstance(bnode.get("result"), dict) and "big" in bnode["result"]:
                            want_big = (bnode["result"]["big"] + 2) > CKPT_LIMIT
            if want_big is True and not rc:
                out.append(V("C16", "C16/oversized-result-not-marked-replay-children", "%s result exceeds the limit but ReplayChildren is not set" % path, a["seq"]))
            if want_big is False and rc:
                out.append(V("C16", "C16/small-result-marked-replay-children", "%s result is within the limit but ReplayChildren is set" % path, a["seq"]))
            if rc:
                rc_ctx.setdefault(u["Id"], a["seq"])
        if u.get("Type") == "CONTEXT" and u.get("Action") == "FAIL":
            path = ix.id2path.get(u["Id"], "?")
            m = re.match(r"^(.*)/b(\d+)$", path)
            et = (u.get("Error") or {}).get("ErrorType")
            if m and et == "AttributeError":
                out.append(V("C16", "C16/branch-with-oversized-result-recorded-failed/%s" % et, "%s FAILED with %s: %s" % (path, et, str((u.get("Error") or {}).get("ErrorMessage"))[:80]), a["seq"]))
    # nothing is recorded for a summarised context or its descendants afterwards
    for a in ix.applied:
        u = a.get("u")
        if not u or u.get("Type") == "EXECUTION":
            continue
        oid = u["Id"]
        for anc in [oid, *ix.ancestors(oid)]:
            if anc in rc_ctx and a["seq"] > rc_ctx[anc]:
                out.append(V("C16", "C16/update-sent-during-replay-children/%s-%s" % (u["Type"], u["Action"]), "%s %s for %s after its summarised context completed" % (u["Type"], u["Action"], ix.id2path.get(oid)), a["seq"]))
                break
    # replayed value of a summarised context equals the first value (C02 covers all paths; counted here for evidence)
    firstval: dict[str, str] = {}
    for e in ix.trace:
        if e["kind"] == "ret" and e.get("rc"):
            n += 1
            if firstval.setdefault(e["path"], e["val"]) != e["val"]:
                kind = "failed-item-error-type" if "CallableRuntimeError" in firstval[e["path"]] or "CallableRuntimeError" in e["val"] else "value"
                if kind == "value" and _started_items_drift(firstval[e["path"]], e["val"]):
                    kind = "summarised-batch-decided-early/branch-recorded-after-the-decision"
                out.append(V("C16", "C16/replay-children-rebuilt-value-differs/%s" % kind, "%s rebuilt value differs from the first one" % e["path"], e["i"]))
        if e["kind"] == "fn_enter" and e.get("fnkind") in ("step", "check", "submitter") and e.get("st") in TERMINAL:
            out.append(V("C16", "C16/completed-step-reexecuted-during-replay", "%s" % e["path"], e["i"]))
    # final result / error around the response limit
    for e in ix.trace:
        if e["kind"] != "inv_end_summary" or not e.get("outcome") or e["outcome"]["kind"] != "return":
            continue
        v = e["outcome"]["value"]
        if not isinstance(v, dict):
            continue
        import json as _json

        size = len(_json.dumps(v, ensure_ascii=False).encode("utf-8", "surrogatepass"))  # what the Lambda runtime would send
        er = e.get("exec_result")
        if v.get("Status") in ("SUCCEEDED", "FAILED"):
            n += 1
            why = response_over_limit(v)
            if why:
                out.append(V("C16", "C16/response-over-lambda-limit/%s" % why[0], "handler returned %d bytes (payload text %d characters)" % why[1:], e["i"]))
            if v.get("Status") == "SUCCEEDED" and v.get("Result") == "" and not (er and er["action"] == "SUCCEED" and er.get("payload")):
                out.append(V("C16", "C16/empty-result-without-recorded-payload", "SUCCEEDED with empty Result but no EXECUTION SUCCEED payload", e["i"]))
            ret = ix.prog.get("ret") or {}
            if v.get("Status") == "SUCCEEDED" and "big" in ret and len(ret.get("ch", "x").encode("utf-8")) == 1:
                full = ret["big"] + 2
                if full > RESP_LIMIT and v.get("Result") != "":
                    out.append(V("C16", "C16/oversized-final-result-returned-inline", "result of %d bytes returned in the response" % full, e["i"]))
                if full <= RESP_LIMIT and v.get("Result") == "":
                    out.append(V("C16", "C16/small-final-result-not-returned-inline", "result of %d bytes" % full, e["i"]))
                if v.get("Result") == "" and er and len(er.get("payload") or "") != full:
                    out.append(V("C16", "C16/recorded-final-result-truncated", "recorded %d bytes of %d" % (len(er.get("payload") or ""), full), e["i"]))
    ix.r.setdefault("stats", {})["c16_events"] = n
    return out


# =============================================================================== C09
def policy_decided(cfgd: dict, ok: int, fail: int, n: int) -> bool:
    """Reference completion policy (DESIGN C09): all finished, min successes reached, or tolerance exceeded
    (any failure when no criterion at all is configured)."""
    if ok + fail >= n:
        return True
    min_ok, tol_n, tol_pct = cfgd.get("min_ok"), cfgd.get("tol_n"), cfgd.get("tol_pct")
    if min_ok is not None and ok >= min_ok:
        return True
    if tol_n is not None and fail > tol_n:
        return True
    if tol_pct is not None and n > 0 and fail / n * 100 > tol_pct:
        return True
    if min_ok is None and tol_n is None and tol_pct is None and fail > 0:
        return True
    return False


def norm_completion(node) -> dict:
    cfgd = dict(node.get("cfg") or {})
    preset = cfgd.get("preset")
    if preset == "first_successful":
        cfgd.update(min_ok=1)
    elif preset == "all_successful":
        cfgd.update(tol_n=0, tol_pct=0)
    elif preset is None and not any(k in cfgd for k in ("min_ok", "tol_n", "tol_pct")) and node["k"] == "par":
        cfgd.update(tol_n=0, tol_pct=0)  # ParallelConfig default = all_successful
    return cfgd


def mon_c09(ix: Index):  # noqa: C901, PLR0912
    out = []
    n_checked = 0
    for path, node in ix.nodes.items():
        if node["k"] not in ("par", "map"):
            continue
        nb = len(node["branches"]) if node["k"] == "par" else len(node["items"])
        cfgd = norm_completion(node)
        maxc = cfgd.get("max_conc")
        oid = ix.path2id.get(path)
        bids = {}
        for i in range(nb):
            b = ix.path2id.get("%s/b%d" % (path, i))
            if b:
                bids[b] = i
        # branch completions in applied order
        comp = []  # (seq, index, "ok"|"fail")
        for a in ix.applied:
            u = a.get("u")
            if u and u["Id"] in bids and u.get("Action") in ("SUCCEED", "FAIL"):
                comp.append((a["seq"], bids[u["Id"]], "ok" if u["Action"] == "SUCCEED" else "fail"))
        # ground truth per branch from the probes
        truth = {}
        for e in ix.trace:
            if e["kind"] == "fn_exit" and e.get("fnkind") == "branch" and e["path"].startswith(path + "/b") and e["path"].count("/") == path.count("/") + 1:
                i = int(e["path"].rsplit("/b", 1)[1])
                if e.get("outcome") == "ok":
                    truth[i] = ("ok", e.get("val"))
                elif str(e.get("outcome", "")).startswith("raise:") and "Suspend" not in e["outcome"] and e["outcome"] not in ("raise:BackgroundThreadError", "raise:OrphanedChildException"):
                    truth[i] = ("fail", e["outcome"][6:])
        # concurrency limit
        active = 0
        peak = 0
        for e in ix.trace:
            if e.get("fnkind") == "branch" and e.get("path", "").startswith(path + "/b") and e["path"].count("/") == path.count("/") + 1:
                if e["kind"] == "fn_enter":
                    active += 1
                    peak = max(peak, active)
                elif e["kind"] == "fn_exit":
                    active -= 1
            elif e["kind"] in ("inv_start",):
                active = 0
        if maxc and peak > maxc:
            out.append(V("C09", "C09/concurrency-limit-exceeded", "%s ran %d branch bodies at once, max_concurrency %d" % (path, peak, maxc)))
        first_batch = None
        for e in ix.trace:
            if e["kind"] == "batch" and e["path"] == path:
                n_checked += 1
                items = e.get("items")
                if items is None:
                    out.append(V("C09", "C09/batch-result-unreadable", "%s %s" % (path, e.get("reason")), e["i"]))
                    continue
                sig = (tuple(tuple(x) if isinstance(x, list) else x for x in map(tuple, items)), e["reason"])
                if first_batch is None:
                    first_batch = sig
                elif sig != first_batch:
                    key = "C09/replayed-batch-result-differs"
                    mech = _early_summarised_drift(first_batch, sig, e)
                    if mech:
                        key += "/" + mech
                    out.append(V("C09", key, "%s delivered a different BatchResult on replay (first %s, now %s)"
                                 % (path, [it[1] for it in first_batch[0]], [it[1] for it in sig[0]]), e["i"]))
                if [it[0] for it in items] != list(range(nb)):
                    out.append(V("C09", "C09/item-count-or-order-wrong", "%s returned indices %s for %d inputs" % (path, [it[0] for it in items], nb), e["i"]))
                    continue
                ok = sum(1 for it in items if it[1] == "SUCCEEDED")
                fail = sum(1 for it in items if it[1] == "FAILED")
                started = sum(1 for it in items if it[1] == "STARTED")
                done_before = {i: k for (sq, i, k) in comp if sq <= e.get("aseq", 10**12)}
                for idx, st, res, err in items:
                    if st in ("SUCCEEDED", "FAILED"):
                        if idx not in done_before:
                            out.append(V("C09", "C09/item-reported-finished-before-its-record", "%s item %d reported %s, no completion record applied yet" % (path, idx, st), e["i"]))
                        t = truth.get(idx)
                        if t is not None:
                            if st == "SUCCEEDED" and (t[0] != "ok" or (t[1] not in (None, "<big>") and res != "<big>" and t[1] != res)):
                                out.append(V("C09", "C09/item-does-not-carry-branch-result", "%s item %d reported %s, branch produced %s" % (path, idx, str(res)[:60], str(t)[:80]), e["i"]))
                            if st == "FAILED" and t[0] != "fail":
                                out.append(V("C09", "C09/item-reported-failed-but-branch-succeeded", "%s item %d" % (path, idx), e["i"]))
                            if st == "FAILED" and (err is None or not err[1]):
                                out.append(V("C09", "C09/failed-item-without-error", "%s item %d" % (path, idx), e["i"]))
                    elif st == "STARTED" and idx in done_before and first_decided(cfgd, comp, nb) is not None and done_before and \
                            [sq for (sq, i, k) in comp if i == idx][0] < first_decided(cfgd, comp, nb):
                        pass  # finished strictly before the deciding completion yet reported STARTED: callback ordering race, not judged
                reason = e["reason"]
                min_ok, tol_n, tol_pct = cfgd.get("min_ok"), cfgd.get("tol_n"), cfgd.get("tol_pct")
                if reason == "ALL_COMPLETED" and started:
                    key = "C09/reason-all-completed-with-started-items"
                    if min_ok is not None and tol_n is None and tol_pct is None and fail > 0:
                        key += "/min-successful-only-config-after-failure"
                    out.append(V("C09", key, "%s reason ALL_COMPLETED with %d STARTED item(s) (ok=%d fail=%d cfg=%s)" % (path, started, ok, fail, cfgd), e["i"]))
                if reason == "MIN_SUCCESSFUL_REACHED" and (min_ok is None or ok < min_ok):
                    out.append(V("C09", "C09/reason-min-successful-without-enough-successes", "%s ok=%d min=%s" % (path, ok, min_ok), e["i"]))
                if reason == "FAILURE_TOLERANCE_EXCEEDED":
                    breached = (tol_n is not None and fail > tol_n) or (tol_pct is not None and nb and fail / nb * 100 > tol_pct) or (tol_n is None and tol_pct is None and fail > 0)
                    if fail == 0 or not breached:
                        out.append(V("C09", "C09/reason-tolerance-exceeded-without-breach", "%s fail=%d cfg=%s" % (path, fail, cfgd), e["i"]))
                # timing: the call returned only once the policy was decided (counts at the instant of return)
                okb = sum(1 for k in done_before.values() if k == "ok")
                failb = sum(1 for k in done_before.values() if k == "fail")
                minonly = min_ok is not None and tol_n is None and tol_pct is None
                if nb > 0 and not policy_decided(cfgd, okb, failb, nb) and not (minonly and failb > 0):
                    out.append(V("C09", "C09/returned-before-policy-decided", "%s returned with ok=%d fail=%d of %d (cfg %s)" % (path, okb, failb, nb, cfgd), e["i"]))
        for e in ix.trace:
            if e["kind"] == "exc" and e.get("path") == path and e.get("opkind") in ("par", "map") and "InvocationError" not in (e.get("mro") or []):
                first_only = not any(x["kind"] == "exc" and x.get("path") == path and x["i"] < e["i"] for x in ix.trace)
                if first_only:
                    out.append(V("C09", "C09/call-raised/%s/%s" % ("zero-items" if nb == 0 else "n>0", e.get("etype") or e["cls"]),
                                 "%s raised %s(%s): %s" % (path, e["cls"], e.get("etype"), str(e.get("msg"))[:100]), e["i"]))
            elif e["kind"] == "exc" and e.get("path") == path and e.get("opkind") in ("par", "map") and not any(x["kind"] == "api" and x.get("fault") for x in ix.trace):
                # an invocation-level error class raised BY A BRANCH FUNCTION is that branch's failure (an item of the batch), not the
                # batch call's: with no checkpoint failure anywhere in the run, the call may not raise the branch's own exception
                src = next((x for x in ix.trace if x["kind"] == "fn_exit" and x.get("fnkind") == "branch" and x["inv"] == e["inv"] and x["i"] < e["i"]
                            and x.get("path", "").rsplit("/", 1)[0] == path and x.get("outcome") == "raise:%s" % e["cls"]), None)
                if src is not None and not any(x["kind"] == "exc" and x.get("path") == path and x["i"] < e["i"] for x in ix.trace):
                    out.append(V("C09", "C09/call-raised/branch-error-escaped/%s" % e["cls"], "%s raised the %s of its branch %s instead of reporting a failed item" % (path, e["cls"], src["path"]), e["i"]))
        if ix.r.get("stop") == "hang" and any(e["kind"] == "call" and e.get("path") == path for e in ix.trace) and \
                not any(e["kind"] in ("ret", "exc", "susp", "abort") and e.get("path") == path and e["inv"] == ix.trace[-1]["inv"] for e in ix.trace):
            h = next((x for x in ix.trace if x["kind"] == "hang"), {})
            if h.get("verdict") == "hang":
                out.append(V("C09", "C09/call-never-returned/%s" % ("zero-items" if nb == 0 else "n>0"), "%s never returned: every thread parked" % path, h.get("i")))
        for e in ix.trace:
            if e["kind"] == "susp" and e.get("path") == path and e.get("opkind") in ("par", "map") and nb > 0:
                oks = sum(1 for (sq, _i, k) in comp if sq <= e.get("aseq", 0) and k == "ok")
                fls = sum(1 for (sq, _i, k) in comp if sq <= e.get("aseq", 0) and k == "fail")
                minonly = cfgd.get("min_ok") is not None and cfgd.get("tol_n") is None and cfgd.get("tol_pct") is None
                if policy_decided(cfgd, oks, fls, nb) and not (minonly and fls > 0):
                    out.append(V("C09", "C09/suspended-although-policy-decided", "%s suspended with ok=%d fail=%d of %d although its completion policy %s was decided" % (path, oks, fls, nb, cfgd), e["i"]))
        # the call must not wait for branches that are still running once the policy is decided
        for e in ix.trace:
            if e["kind"] == "release" and e.get("forced") and str(e.get("name", "")).startswith("blk:" + path + ":"):
                okr = sum(1 for (sq, _i, k) in comp if sq <= e.get("aseq", 0) and k == "ok")
                failr = sum(1 for (sq, _i, k) in comp if sq <= e.get("aseq", 0) and k == "fail")
                minonly = cfgd.get("min_ok") is not None and cfgd.get("tol_n") is None and cfgd.get("tol_pct") is None
                if not policy_decided(cfgd, okr, failr, nb) or (minonly and failr > 0):
                    continue  # the stall was created by the scenario itself (a blocked branch occupies a worker the policy still needs)
                if any(x["kind"] in ("ret", "susp", "exc") and x.get("path") == path and x["i"] < e["i"] and x["inv"] == e["inv"] for x in ix.trace):
                    continue
                out.append(V("C09", "C09/did-not-return-while-branches-still-running", "%s had not returned although the policy was decided; blocked branch %s had to be released" % (path, e["name"]), e["i"]))
    ix.r.setdefault("stats", {})["c09_batches"] = n_checked
    return out


def _started_items_drift(v1: str, v2: str) -> bool:
    """Same mechanism seen on canonical BatchResult texts: identical but for items STARTED at first and SUCCEEDED/FAILED on replay,
    with an early completion reason."""
    if not (v1.startswith("br{") and v2.startswith("br{")):
        return False
    r1, r2 = v1.rsplit("|", 1)[-1], v2.rsplit("|", 1)[-1]
    if r1 != r2 or not r1.startswith(("MIN_SUCCESSFUL_REACHED", "FAILURE_TOLERANCE_EXCEEDED")):
        return False
    s1 = re.split(r"(?=bi\(\d+,[A-Z_]+,)", v1.rsplit("|", 1)[0])
    s2 = re.split(r"(?=bi\(\d+,[A-Z_]+,)", v2.rsplit("|", 1)[0])
    if len(s1) != len(s2):
        return False
    drift = 0
    for a, b in zip(s1, s2):
        if a == b:
            continue
        ma, mb = re.match(r"bi\((\d+),([A-Z_]+),", a), re.match(r"bi\((\d+),([A-Z_]+),", b)
        if not (ma and mb and ma.group(1) == mb.group(1) and ma.group(2) == "STARTED" and mb.group(2) in ("SUCCEEDED", "FAILED")):
            return False  # some other difference: not this mechanism
        drift += 1
    return drift > 0


def _early_summarised_drift(first_sig, sig, e):
    """Mechanism class of a first-run/replay difference: the batch was decided early (minimum reached / tolerance exceeded), its
    result was oversized (rebuilt from the recorded children on replay), and every differing item was reported STARTED by the
    first run but has a completion record, i.e. a branch whose record was accepted before the parent's completion record although
    the executor had not processed it when it built the first result."""
    if not e.get("rc") or first_sig[1] != sig[1] or sig[1] not in ("MIN_SUCCESSFUL_REACHED", "FAILURE_TOLERANCE_EXCEEDED"):
        return None
    a, b = first_sig[0], sig[0]
    if len(a) != len(b):
        return None
    diff = [(x, y) for x, y in zip(a, b) if x != y]
    if diff and all(x[1] == "STARTED" and y[1] in ("SUCCEEDED", "FAILED") and x[0] == y[0] for x, y in diff):
        return "summarised-batch-decided-early/branch-recorded-after-the-decision"
    return None


def first_decided(cfgd, comp, nb):
    ok = fail = 0
    for sq, _i, k in comp:
        if k == "ok":
            ok += 1
        else:
            fail += 1
        if policy_decided(cfgd, ok, fail, nb):
            return sq
    return None


# =============================================================================== C10
def mon_c10(ix: Index):  # noqa: C901
    out = []
    n = 0
    done: dict[str, int] = {}  # context id -> seq of its completion record
    seen_ops: set[str] = set()
    for a in ix.applied:
        u = a.get("u")
        if not u or u.get("Type") == "EXECUTION":
            continue
        oid = u["Id"]
        anc_done = [x for x in ix.ancestors(oid) if x in done]
        if anc_done:
            first_time = oid not in seen_ops
            rcflag = False
            ctxp = ix.id2path.get(anc_done[0], "?")
            out.append(V("C10", "C10/update-after-ancestor-completed/%s/%s-%s" % ("first-time-operation" if first_time else "existing-operation", u["Type"], u["Action"]),
                         "%s %s for %s applied after its ancestor context %s had completed" % (u["Type"], u["Action"], ix.id2path.get(oid), ctxp), a["seq"]))
        seen_ops.add(oid)
        if u.get("Type") == "CONTEXT" and u.get("Action") in ("SUCCEED", "FAIL"):
            done[oid] = a["seq"]
            n += 1
    # user functions entered in orphaned branches after the ancestor's completion was applied
    lastcall: dict[tuple, dict] = {}
    for e in ix.trace:
        if e["kind"] == "call":
            lastcall[(e.get("t"), e["path"])] = e
        elif e["kind"] == "fn_enter" and e.get("fnkind") in ("step", "check", "submitter"):
            base = e["path"].split("@")[0]
            c = lastcall.get((e.get("t"), base)) or lastcall.get((e.get("t"), e["path"]))
            if c is None or c["inv"] != e["inv"]:
                continue
            # ancestors by structural path
            p = ctx_path(e["path"])
            while p is not None:
                aid = ix.path2id.get(p)
                if aid in done and done[aid] <= c.get("aseq", -1) and any(a2["seq"] == done[aid] and a2["inv"] == e["inv"] for a2 in ix.applied):
                    out.append(V("C10", "C10/function-entered-in-orphaned-branch/%s" % e.get("fnkind"),
                                 "%s function at %s entered although its call was issued after ancestor %s completed" % (e["fnkind"], e["path"], p), e["i"]))
                    break
                p = ctx_path(p)
    ix.r.setdefault("stats", {})["c10_context_completions"] = n
    ix.r["stats"]["c10_orphan_aborts"] = sum(1 for e in ix.trace if e["kind"] == "abort" and e.get("cls") == "OrphanedChildException")
    return out


# =============================================================================== C07
def mon_c07(ix: Index):  # noqa: C901, PLR0912
    out = []
    n = 0
    done_ctx: dict[str, int] = {}
    for a in ix.applied:
        u = a.get("u")
        if u and u.get("Type") == "CONTEXT" and u.get("Action") in ("SUCCEED", "FAIL"):
            done_ctx[u["Id"]] = a["seq"]
    for inv, evs in ix.by_inv.items():
        end = next((x for x in evs if x["kind"] == "inv_end_summary"), None)
        if end is None or not end.get("outcome") or end["outcome"]["kind"] != "return":
            continue
        v = end["outcome"]["value"]
        if not isinstance(v, dict) or v.get("Status") != "PENDING":
            continue
        n += 1
        stats = end["statuses"]
        lastdel: dict[tuple, dict] = {}
        for s in evs:
            if s["kind"] in ("susp", "ret", "exc", "abort", "call"):
                lastdel[(s.get("path"), s.get("phase"))] = s
        parked = [s for s in lastdel.values() if s["kind"] == "susp" and s.get("opkind") in LEAF + ("wfcb",)]
        for s in parked:
            oid = s.get("oid")
            if s.get("opkind") == "wfcb":  # parked on the callback the SDK created inside the wait_for_callback context
                oid = ix.path2id.get(s["path"] + "@cb")
            cur = stats.get(oid) if oid else None
            if not armed_leaf(cur, ix.kind.get(oid)):
                out.append(V("C07", "C07/pending-with-parked-operation-without-wake-source/%s-%s" % (s.get("opkind"), cur),
                             "PENDING returned; %s (%s) is parked but its backend status is %s" % (s["path"], s.get("opkind"), cur), s["i"]))
        if not any(s["kind"] == "susp" and s.get("opkind") in LEAF + ("wfcb",) for s in evs):
            out.append(V("C07", "C07/pending-without-any-suspension", "PENDING returned but no operation suspended in this invocation", end["i"]))
        # user functions still executing when PENDING was returned
        active: dict[tuple, dict] = {}
        for e in evs:
            if e["kind"] == "fn_enter" and e.get("fnkind") in ("step", "check", "submitter") and not e.get("late") and not e.get("killed"):
                active[(e.get("t"), e["path"])] = e
            elif e["kind"] == "fn_exit" and e.get("fnkind") in ("step", "check", "submitter"):
                active.pop((e.get("t"), e["path"]), None)
        parks = [e for e in evs if (e["kind"] == "susp" and e.get("opkind") in LEAF) or (e["kind"] == "fn_exit" and e.get("fnkind") == "branch")]
        for (t, path), e in active.items():
            others = [p for p in parks if p.get("t") != t]
            if not others:
                continue
            t_last = max(p["i"] for p in others)
            orphan = False
            p = ctx_path(path)
            while p is not None:
                # orphaned only if the enclosing context had completed by the time this invocation ended (not in a later one)
                if ix.path2id.get(p) in done_ctx and done_ctx[ix.path2id.get(p)] <= end.get("aseq", 10**12):
                    orphan = True
                p = ctx_path(p)
            if orphan:
                continue
            if e["i"] < t_last:
                out.append(V("C07", "C07/pending-while-user-function-running/%s" % e.get("fnkind"),
                             "PENDING returned while %s function at %s (entered before the last other branch parked) was still executing" % (e["fnkind"], path), e["i"]))
    # no in-flight work is silently abandoned: a terminal outcome while an operation is parked is only legitimate when a map/parallel
    # enclosing it was decided by its completion policy (the parked branch is then an orphan by design)
    for inv, evs in ix.by_inv.items():
        end = next((x for x in evs if x["kind"] == "inv_end_summary"), None)
        if end is None or not end.get("outcome") or end["outcome"]["kind"] != "return":
            continue
        v = end["outcome"]["value"]
        if not isinstance(v, dict) or v.get("Status") not in ("SUCCEEDED", "FAILED"):
            continue
        lastdel = {}
        batches = {}
        for s_ in evs:
            if s_["kind"] in ("susp", "ret", "exc", "abort", "call"):
                lastdel[(s_.get("path"), s_.get("phase"))] = s_
            elif s_["kind"] == "batch" and s_.get("items") is not None:
                batches[s_["path"]] = s_
        for s_ in lastdel.values():
            if s_["kind"] != "susp" or s_.get("opkind") not in LEAF + ("wfcb",):
                continue
            verdicts = []
            p_ = ctx_path(s_["path"])
            while p_ is not None:
                node = ix.nodes.get(p_)
                if node is not None and node["k"] in ("par", "map") and p_ in batches:
                    items = batches[p_]["items"]
                    ok = sum(1 for it in items if it[1] == "SUCCEEDED")
                    fail = sum(1 for it in items if it[1] == "FAILED")
                    nb = len(node.get("branches") or node.get("items") or [])
                    cfgd = norm_completion(node)
                    # only a minimum configured and a branch failed: the statement does not say whether that decides (not judged)
                    minonly = cfgd.get("min_ok") is not None and cfgd.get("tol_n") is None and cfgd.get("tol_pct") is None
                    verdicts.append(policy_decided(cfgd, ok, fail, nb) or (minonly and fail > 0))
                p_ = ctx_path(p_)
            if verdicts and not any(verdicts):
                n += 1
                out.append(V("C07", "C07/terminal-outcome-while-work-parked/%s" % s_.get("opkind"),
                             "invocation %d returned %s although %s (%s) was parked and no enclosing map/parallel had been decided by its completion policy"
                             % (inv, v.get("Status"), s_["path"], s_.get("opkind")), s_["i"]))
    # lock-order sanitizer (dw/lockorder.py): feasible deadlocks among the SDK's own locks, whether or not they struck in this run
    edges = acquires = 0
    for e in ix.trace:
        if e["kind"] == "lockorder":
            edges = max(edges, e.get("edges", 0))
            acquires += e.get("acquires", 0)
            for iv in e.get("inversions") or []:
                out.append(V("C07", "C07/lock-order-inversion/%s|%s" % tuple(sorted([str(iv.get("a")), str(iv.get("b"))])),
                             "threads %s took the locks created at %s and %s in opposite orders (at %s and %s) with no common gate lock: a feasible deadlock"
                             % (iv.get("threads"), iv.get("a"), iv.get("b"), iv.get("ab_at"), iv.get("ba_at")), e["i"]))
        elif e["kind"] == "lockorder_self":
            out.append(V("C07", "C07/self-deadlock/%s" % e.get("site"), "thread %s blocks on the non-reentrant lock created at %s which it already holds (at %s)"
                         % (e.get("thread"), e.get("site"), e.get("at")), e["i"]))
    ix.r.setdefault("stats", {})["c07_lock_order_edges_seen"] = edges
    ix.r["stats"]["c07_lock_acquisitions_observed"] = acquires
    stop = ix.r.get("stop")
    if stop == "stuck-pending":
        out.append(V("C07", "C07/execution-never-woken", "execution is PENDING with no timer armed, no external event awaited and nothing delivered during the invocation"))
    elif stop == "max-invocations":
        out.append(V("C07", "C07/invocation-bound-exceeded", "execution did not reach a terminal status within %d invocations" % len(ix.r["invocations"])))
    elif stop == "hang":
        h = next((x for x in ix.trace if x["kind"] == "hang"), {})
        if h.get("verdict") == "hang":
            faulted = bool(ix.r["scenario"].get("faults")) and any(e["kind"] == "api" and e.get("fault") for e in ix.trace)
            out.append(V("C07", "C07/invocation-blocked-forever" + ("/after-checkpoint-failure" if faulted else ""),
                         "invocation hung: every thread parked, no API call in flight", h.get("i")))
    elif stop == "spin":
        sp = next((x for x in ix.trace if x["kind"] == "spin"), {})
        # classify by what the parked branches were waiting on
        inv = sp.get("inv")
        kinds = sorted({e.get("opkind") for e in ix.by_inv.get(inv, []) if e["kind"] == "susp" and e.get("timed") and e.get("opkind") in LEAF
                        and e.get("until") is not None})
        zero_timeout_invoke = any(n_["k"] == "invoke" and not (n_.get("cfg") or {}).get("timeout") for n_ in ix.nodes.values())
        key = "C07/spin/%s" % ("branches-parked-on-invoke-with-default-timeout" if (zero_timeout_invoke and "invoke" in kinds) else "other-" + "+".join(k or "?" for k in kinds))
        out.append(V("C07", key, "invocation keeps issuing empty checkpoints without ever suspending: %s" % sp.get("why"), sp.get("i")))
    ix.r.setdefault("stats", {})["c07_pending_outcomes"] = n
    return out


MONITORS = {
    "C01": mon_c01,
    "C02": mon_c02,
    "C03": mon_c03,
    "C04": mon_c04,
    "C06": mon_c06,
    "C07": mon_c07,
    "C08": mon_c08,
    "C09": mon_c09,
    "C10": mon_c10,
    "C11": mon_c11,
    "C12": mon_c12,
    "C13": mon_c13,
    "C14": mon_c14,
    "C16": mon_c16,
    "C17": mon_c17,
    "C18": mon_c18,
}


def mon_contracts(ix: Index, props):
    """Violations and evaluation counts reported by the in-situ icontract postconditions (child side)."""
    out = []
    ev = {}
    for e in ix.trace:
        if e["kind"] == "contract":
            prop = e["name"].split("/")[0]
            if props is None or prop in props:
                out.append(V(prop, e["name"], e.get("detail", ""), e["i"]))
        elif e["kind"] == "inv_end_summary" and e.get("contract_evals"):
            for k, v in e["contract_evals"].items():
                ev[k] = ev.get(k, 0) + v
    for k, v in ev.items():
        ix.r.setdefault("stats", {})["insitu_contract_evaluations_" + k] = v
    return out


def run_monitors(r: dict, props=None) -> list[dict]:
    ix = Index(r)
    out = mon_contracts(ix, props)
    for p, fn in MONITORS.items():
        if props is None or p in props:
            out.extend(fn(ix))
    return out
