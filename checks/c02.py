"""C02 - replay transparency: per-position deliveries identical across invocations; final outcome independent of interruptions."""
from checks.worldcheck import Spec, replayed_delivery

PROP = "C02"
SPEC = Spec(
    PROP,
    level="fault_enumeration",
    det=True,
    compare_final=True,
    gen={"kinds": ["step", "step", "wait", "cb", "wfcb", "invoke", "wfc", "child", "par", "map", "fstep", "fstep", "rstep", "fwfc"]},
    rule="deterministic random programs (values from the default serializer's exact domain, try/except by class around failing "
    "steps/conditions, nested child contexts, map/parallel) x {uninterrupted with random pagination, every single crash point of a "
    "small-program corpus, random multi-crash, asynchronous SIGKILL}; oracle 1: every ret/exc delivered for one program position is "
    "identical (type-tagged canonical value / exception class+message) in every invocation; oracle 2: the final (status, result | "
    "error type+message) of each interrupted run equals that of the uninterrupted reference run of the same program on the real SDK "
    "(runs that interrupted an at-most-once step are excluded from oracle 2 only). Non-trivial = a completed operation was delivered "
    "again in a later invocation. A class = (program shape hash, interruption pattern, crash landing event kind).",
    deciding=replayed_delivery,
    minima={"c02_deliveries": 500},
)
cases = SPEC.cases
run_case = SPEC.run_case
if __name__ == "__main__":
    SPEC.main("checks.c02")
