"""Worker subprocess: runs the cases of one shard and pickles a summary."""
from __future__ import annotations

import importlib
import os
import pickle
import sys
import time
import traceback


def main():
    module, tier, seed, shard, nshards, out = sys.argv[1:7]
    seed, shard, nshards = int(seed), int(shard), int(nshards)
    sys.path.insert(0, os.path.dirname(os.path.dirname(os.path.abspath(__file__))))
    mod = importlib.import_module(module)
    prop = getattr(mod, "PROP")
    from dw import harness

    harness.ensure_deps()
    import logging

    logging.disable(logging.CRITICAL)
    summary = {"cases": 0, "execs": 0, "invs": 0, "api": 0, "classes": set(), "violations": [], "obs": {}, "samples": [],
               "interleavings": set()}
    budget = getattr(mod, "BUDGET", {}).get(tier)
    t0 = time.monotonic()
    import fcntl

    counter = out.rsplit("-", 1)[0] + ".ctr"

    def claim() -> int:
        with open(counter, "a+") as f:
            fcntl.flock(f, fcntl.LOCK_EX)
            f.seek(0)
            txt = f.read().strip()
            n = int(txt) if txt else 0
            f.seek(0)
            f.truncate()
            f.write(str(n + 1))
            f.flush()
            fcntl.flock(f, fcntl.LOCK_UN)
        return n

    import fnmatch

    known = [k for k in harness.load_known() if k["property"] == prop]
    unknown_n = 0
    keycount: dict[str, int] = {}
    mine = claim()
    for i, case in enumerate(mod.cases(tier, seed)):
        if i != mine:
            continue
        mine = claim()
        if unknown_n >= 12:
            summary["obs"]["cases_skipped_after_12_unknown_violations"] = summary["obs"].get("cases_skipped_after_12_unknown_violations", 0) + 1
            continue
        if budget and time.monotonic() - t0 > budget:
            summary["obs"]["cases_skipped_budget"] = summary["obs"].get("cases_skipped_budget", 0) + 1
            continue
        try:
            res = mod.run_case(case)
        except Exception:  # noqa: BLE001
            # an exception of the harness itself (not a verdict): run the case once more; only a repeatable failure stops the worker
            traceback.print_exc()
            summary["obs"]["harness_exceptions_retried"] = summary["obs"].get("harness_exceptions_retried", 0) + 1
            try:
                res = mod.run_case(case)
            except Exception:  # noqa: BLE001
                traceback.print_exc()
                raise
        summary["cases"] += 1
        summary["execs"] += res.get("execs", 1)
        summary["invs"] += res.get("invs", 0)
        summary["api"] += res.get("api", 0)
        summary["classes"] |= set(res.get("classes", ()))
        summary["interleavings"] |= set(res.get("interleavings", ()))
        for k, v in res.get("obs", {}).items():
            if isinstance(v, (int, float)):
                summary["obs"][k] = summary["obs"].get(k, 0) + v
            else:
                summary["obs"].setdefault(k, set()).update(v)
        for v in res.get("violations", []):
            if v["prop"] != prop:
                continue
            if not any(fnmatch.fnmatchcase(v["key"], k["key"]) for k in known):
                unknown_n += 1
            keycount[v["key"]] = keycount.get(v["key"], 0) + 1
            if keycount[v["key"]] > 3:
                summary["obs"]["violations_suppressed_same_key"] = summary["obs"].get("violations_suppressed_same_key", 0) + 1
                if keycount[v["key"]] <= 200:
                    summary["violations"].append({"prop": v["prop"], "key": v["key"], "msg": v["msg"], "replay": "<same class as above>"})
                continue
            v = dict(v)
            v["replay"] = harness.save_replay(prop, v.get("case", case), v, {"trace": v.get("trace")})
            v.pop("case", None)
            v.pop("trace", None)
            summary["violations"].append(v)
        if len(summary["samples"]) < 3 and res.get("sample") is not None:
            summary["samples"].append(res["sample"])
    with open(out, "wb") as f:
        pickle.dump(summary, f)
        f.flush()
        os.fsync(f.fileno())
    sys.stdout.flush()
    os._exit(0)  # never wait for wedged daemon/worker threads of a violated run


if __name__ == "__main__":
    main()
