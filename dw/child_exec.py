"""Entry point of an exec'ed (not forked) invocation process: a cold start in a new interpreter. See driver.run_invocation."""
import os
import pickle
import sys


def main():
    path = sys.argv[1]
    with open(path, "rb") as f:
        job = pickle.load(f)  # noqa: S301
    try:
        os.unlink(path)
    except OSError:
        pass
    from dw.backend import VClock
    from dw.child import child_main

    k, m0, v0, jump = job["clock"]
    clock = VClock(k, v0)
    clock.m0 = m0  # CLOCK_MONOTONIC is system-wide: the child shares the parent's virtual time line
    clock.jump = jump
    try:
        child_main(job["wfd"], job["rfd"], job["sc"], job["event"], clock, job["inv"], job["dump"])
    except BaseException:  # noqa: BLE001
        import traceback

        traceback.print_exc()
    finally:
        os._exit(98)


if __name__ == "__main__":
    main()
