"""C08 world check (see DESIGN.md section 2, C08)."""
from checks.worldcheck import Spec, replayed_delivery

PROP = "C08"
def explicit(tier, seed):
    """Shapes the random generator does not produce: the same callable at several parallel positions, and user threads sharing
    one context (single invocation only: with user threads the call index itself depends on the schedule)."""
    i = 0
    for nb in (2, 3, 5):
        for how in ("identical", "equal"):
            for depth in (0, 1):
                brs = [{"body": [{"k": "step", "val": "same"}, {"k": "step", "val": 2}]} for _ in range(nb)]
                node = {"k": "par", "branches": brs, "cfg": {"max_conc": 1}, "same_fn": how}
                body = [{"k": "step", "val": 0}, node, {"k": "wait", "s": 1}, {"k": "step", "val": "after"}]
                if depth:
                    body = [{"k": "child", "body": body}]
                yield {"label": "same-callable-" + how, "prog": {"body": body}, "prog_seed": 8800 + i, "pattern": {"p": "plain"}}
                i += 1
    for T, N in ((2, 3), (2, 30), (4, 10), (4, 40), (8, 25)) if tier == "quick" else ((2, 3), (2, 30), (2, 200), (4, 10), (4, 40), (4, 150), (8, 25), (8, 100), (16, 40)):
        for op in ("step", "child"):
            for rep in range(2 if tier == "quick" else 6):
                body = [{"k": "step", "val": 0}, {"k": "uthreads", "threads": T, "n": N, "op": op}, {"k": "step", "val": "after"}]
                if rep % 2:
                    body = [{"k": "child", "body": body}]
                yield {"label": "user-threads-share-context", "prog": {"body": body}, "prog_seed": 8900 + i, "pattern": {"p": "plain"}, "max_inv": 1,
                       "opts": {"perturb": {"p": 0.05, "seed": seed * 131 + i, "files": ["context.py", "threading.py"]}} if rep >= 1 else {}}
                i += 1


SPEC = Spec(
    PROP,
    level="exploration",
    rule="random programs (all nine operation kinds, nesting<=3) x {uninterrupted with random pagination/latency, every single "
    "crash point of a small-program corpus, random multi-crash, asynchronous SIGKILL, yield injection}; bijection structural-path <-> Id over every update of every invocation; ParentId equals the id of the enclosing context; across all executions of all programs in the worker, ids are a function of the position chain only (metamorphic, no re-implementation of the hash). Explicit slice: the same / equal callables at several parallel positions; 2-16 user threads starting operations on one shared context at once (single invocation; collision-freedom and parent links only). Non-trivial = positions recorded. "
    "A class = (program shape hash, interruption pattern, event kind at which the crash landed).",
    deciding=lambda r: True,
    explicit=explicit,
)
cases = SPEC.cases
run_case = SPEC.run_case
if __name__ == "__main__":
    SPEC.main("checks.c08")
