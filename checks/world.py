"""Shared workload machinery for the world-engine checks: interruption patterns, crash-point
enumeration, per-execution judging, class/interleaving accounting."""
from __future__ import annotations

import copy
import hashlib
import random
import re

from dw.driver import run_scenario
from dw.monitors import Index, final_sig, run_monitors
from dw.program import Gen, default_world, walk


def shape_of(prog) -> str:
    def sh(body):
        out = []
        for n in body:
            k = n["k"]
            if k == "try":
                out.append("try(" + sh([n["body"]]) + ")")
            elif k == "child":
                out.append("child(" + sh(n["body"]) + ")")
            elif k == "par":
                out.append("par(" + "|".join(sh(b["body"]) for b in n["branches"]) + ")")
            elif k == "map":
                out.append("map%d(" % len(n["items"]) + sh(n["body"]) + ")")
            elif k == "cb":
                out.append("cb(" + sh(n.get("between") or []) + ")")
            elif k == "step":
                out.append("step" + ("!" if n.get("sem") == "most" else "") + ("~" if n.get("script") else ""))
            else:
                out.append(k)
        return ",".join(out)

    return sh(prog["body"])


def role(t: str) -> str:
    if t.startswith("dex-handler"):
        return "H" + t[-1]
    if t.startswith("ThreadPoolExecutor"):
        return "P" + t.rsplit("_", 1)[-1]
    if t.startswith("Thread-"):
        return "T"
    return t[:6]


def interleaving_hash(r) -> str:
    h = hashlib.sha1()
    for e in r["trace"]:
        if e["kind"] in ("call", "ret", "exc", "susp", "abort", "fn_enter", "fn_exit", "api", "gate", "release"):
            if e["kind"] == "api":
                s = "api:" + ",".join("%s%s" % (u.get("Action", "")[:2], (u.get("Name") or "")) for u in e.get("updates") or [])
            else:
                s = "%s:%s:%s" % (role(e.get("t", "")), e["kind"], e.get("path"))
            h.update(s.encode())
    return h.hexdigest()[:16]


def make_program(case) -> dict:
    if "prog" in case:
        return case["prog"]
    rng = random.Random(case["prog_seed"])
    return Gen(rng, **case.get("gen", {})).program()


def base_scenario(case) -> dict:
    prog = make_program(case)
    rng = random.Random(case.get("prog_seed", 0) * 7919 + 13)
    sc = {"prog": prog, "seed": case.get("prog_seed", 0), "world": case.get("world") or default_world(prog, rng, det=case.get("det", False))}
    for k in ("pages", "latency_ms", "opts", "holds", "faults", "max_inv", "input", "expect", "bad_event", "bad_input", "max_raises"):
        if k in case:
            sc[k] = copy.deepcopy(case[k])
    return sc


def crash_label(r, crash) -> str:
    """Kind of event at which the (first) crash landed, from the trace."""
    for e in r["trace"]:
        if e.get("killed"):
            if e["kind"] == "api":
                ups = e.get("updates") or []
                u = ("%s-%s" % (ups[-1]["Type"], ups[-1]["Action"])) if ups else e.get("op")
                return "api-%s:%s" % (e.get("lost"), u)
            return "%s:%s" % (e["kind"], e.get("fnkind") or e.get("opkind") or "")
        if e["kind"] == "async_kill":
            return "async"
    return "nocrash"


def compact_trace(r, limit=600) -> list[str]:
    out = []
    for e in r["trace"]:
        k = e["kind"]
        if k in ("clock", "inv_end"):
            continue
        if k == "api":
            out.append("%d %s api#%s %s%s %s" % (e["inv"], role(e.get("t", "")), e.get("n"), e.get("op"),
                       " FAULT" + str(e["fault"]) if e.get("fault") else (" LOST-" + e["lost"] if e.get("lost") else ""),
                       [(u.get("Action"), u.get("Name")) for u in e.get("updates") or []]))
        elif k == "inv_start":
            out.append("%d ---- invocation start (first_page=%s, ops=%s)" % (e["inv"], e.get("first_page"), e.get("n_ops")))
        elif k == "inv_end_summary":
            out.append("%d ==== end killed=%s outcome=%s" % (e["inv"], e.get("killed"), str(e.get("outcome"))[:200]))
        else:
            d = {x: v for x, v in e.items() if x not in ("i", "inv", "kind", "t", "msg_n", "aseq", "oid", "mro", "chain", "stacks")}
            out.append("%d %s %s %s" % (e["inv"], role(e.get("t", "") or ""), k, str(d)[:300]))
    return out[-limit:]


def summarize(r) -> dict:
    return {"stop": r["stop"], "status": r["status"], "invocations": len(r["invocations"]), "events": len(r["trace"]),
            "api_calls": sum(i["api"] for i in r["invocations"])}


class Acc:
    """Accumulates the result of one case (possibly many executions)."""

    def __init__(self, case):
        self.case = case
        self.out = {"execs": 0, "invs": 0, "api": 0, "classes": set(), "interleavings": set(), "violations": [], "obs": {},
                    "sample": None}

    def add(self, r, props, cls=None, sc=None, extra_viol=()):
        o = self.out
        o["execs"] += 1
        o["invs"] += len(r["invocations"])
        o["api"] += sum(i["api"] for i in r["invocations"])
        o["interleavings"].add(interleaving_hash(r))
        vs = run_monitors(r, props) + list(extra_viol)
        if callable(cls):
            cls = cls(r)
        perkey: dict[str, int] = {}
        ctrace = None
        for v in vs:
            perkey[v["key"]] = perkey.get(v["key"], 0) + 1
            if perkey[v["key"]] > 2:  # keep two witnesses per mechanism class and execution, count the rest
                o["obs"]["violations_beyond_two_per_class_and_execution"] = o["obs"].get("violations_beyond_two_per_class_and_execution", 0) + 1
                continue
            v = dict(v)
            c = dict(self.case)
            c["exact_scenario"] = strip_scenario(sc or r["scenario"])
            v["case"] = c
            if ctrace is None:
                ctrace = compact_trace(r)
            v["trace"] = ctrace
            o["violations"].append(v)
        for k, v in (r.get("stats") or {}).items():
            o["obs"][k] = o["obs"].get(k, 0) + v
        o["obs"]["hangs"] = o["obs"].get("hangs", 0) + (1 if r["stop"] == "hang" else 0)
        nw = sum(1 for e in r["trace"] if e["kind"] == "warm_reuse")
        if nw:
            o["obs"]["invocations_served_by_a_reused_warm_process"] = o["obs"].get("invocations_served_by_a_reused_warm_process", 0) + nw
        na = sum(1 for e in r["trace"] if e.get("after_return"))
        if na:
            o["obs"]["events_after_the_handler_returned"] = o["obs"].get("events_after_the_handler_returned", 0) + na
        o["obs"]["stop:" + str(r["stop"])] = o["obs"].get("stop:" + str(r["stop"]), 0) + 1
        if cls:
            o["classes"].add(cls)
        if o["sample"] is None:
            o["sample"] = {"label": self.case.get("label"), "shape": shape_of(r["scenario"]["prog"]), "summary": summarize(r),
                           "crashes": r["scenario"].get("crashes"), "pages": r["scenario"].get("pages")}
        return vs


def strip_scenario(sc):
    sc = copy.deepcopy(sc)
    for lst in ("holds", "faults"):
        for h in sc.get(lst, []) or []:
            h.pop("_used", None)
            h.pop("_seen", None)
    return sc


def crash_points(r) -> list[dict]:
    """All single crash points of a finished execution: (invocation, message index, mode)."""
    pts = []
    for e in r["trace"]:
        if "msg_n" not in e:
            continue
        if e["kind"] == "api":
            pts.append({"inv": e["inv"], "at": e["msg_n"], "mode": "before"})
            pts.append({"inv": e["inv"], "at": e["msg_n"], "mode": "after"})
        elif e["kind"] in ("fn_enter", "fn_exit", "call", "ret", "exc", "susp", "inv_end", "strategy", "wfc_strategy", "gate"):
            pts.append({"inv": e["inv"], "at": e["msg_n"]})
    return pts


def run_exact(case):
    sc = copy.deepcopy(case["exact_scenario"])
    return run_scenario(sc)
