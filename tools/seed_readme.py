#!/usr/bin/env python3
"""Generates seeded/README.md (which checks catch which independently written breaking changes) from seeded/*/meta.json."""
import glob
import json
import os

ROOT = os.path.dirname(os.path.dirname(os.path.abspath(__file__)))
rows = []
for mp in sorted(glob.glob(os.path.join(ROOT, "seeded", "*", "meta.json"))):
    m = json.load(open(mp))
    checks = m.get("checks") or {}
    caught = [p for p, r in checks.items() if r.get("exit") == 1]
    missed = [p for p, r in checks.items() if r.get("exit") == 0]
    incon = [p for p, r in checks.items() if r.get("exit") not in (0, 1)]
    keys = []
    for p in caught:
        keys += checks[p].get("violation_keys", [])[:2]
    rows.append((m["name"], m.get("breaks_property"), m.get("confirmed"), ", ".join(caught) or "-", ", ".join(missed) or "-", ", ".join(incon) or "-",
                 m.get("needs", ""), "; ".join(keys)[:160], m.get("note", "")))
with open(os.path.join(ROOT, "seeded", "README.md"), "w") as f:
    f.write("# Independently written breaking changes and the checks that catch them\n\n"
            "Each change was written by a fresh sub-agent that saw only the text of one property and its own scratch worktree of the repository.\n"
            "`confirmed` = we re-ran it ourselves on a scratch worktree: the repository's suite passes with the change, the agent's demonstration\n"
            "exits 0 without it and non-zero with it. Checks were then run (quick tier) against the patched tree (`tools/seedeval.py`).\n\n"
            "| change | breaks | confirmed | caught by | run but silent | inconclusive | what it needs to manifest | violation keys (first) | note |\n|---|---|---|---|---|---|---|---|---|\n")
    for r in rows:
        f.write("| " + " | ".join(str(x) for x in r) + " |\n")
print("seeded/README.md: %d changes" % len(rows))
