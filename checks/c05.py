"""C05 - checkpoint stream: nothing lost, duplicated or reordered; limits respected; sync callers always released.
Dedicated harness on a real ExecutionState with a recording fake DurableServiceClient."""
from __future__ import annotations

import json
import queue
import random
import sys
import threading
import time

from dw import harness
from dw.monitors import V

PROP = "C05"


LOCK_STATS = {"acquires": 0, "edges": 0}
GLYPH_WIRE = {"p": 1, "\u00e9": 6, "\u6f22": 6, "\U0001F600": 12}  # bytes per character in the request body (JSON escapes non-ASCII)


def _mk_update(uid: str, size: int, glyph: str = "p"):
    """An update whose payload takes about `size` bytes in the request body."""
    from aws_durable_execution_sdk_python.identifier import OperationIdentifier
    from aws_durable_execution_sdk_python.lambda_service import OperationUpdate

    # every other update belongs to a context (has a parent id), as the operations of branches and child contexts do
    parent = "ctx-%s" % uid[-1] if (sum(map(ord, uid)) % 2) else None
    return OperationUpdate.create_step_succeed(OperationIdentifier(uid, parent, uid), payload=glyph * max(1, size // GLYPH_WIRE[glyph]))


class RecClient:
    def __init__(self, latency, fail_at=None):
        self.calls = []  # (token, [ids], [sizes], t)
        self.lock = threading.Lock()
        self.latency = latency
        self.tok = 0
        self.fail_at = fail_at
        self.delivered: list[str] = []
        self.last_call_t = time.monotonic()
        self.in_call = 0
        self.failed_t = None
        self.paged = 0  # every k-th checkpoint response carries a NextMarker
        self.page_fetches = 0
        self.fail_page_at = None

    def checkpoint(self, durable_execution_arn, checkpoint_token, updates, client_token):
        from aws_durable_execution_sdk_python.lambda_service import CheckpointOutput, CheckpointUpdatedExecutionState

        sizes = [len(json.dumps(u.to_dict()).encode("utf-8")) for u in updates]
        ids = [u.operation_id for u in updates]
        with self.lock:
            self.in_call += 1
            n = len(self.calls)
            self.calls.append((checkpoint_token, ids, sizes))
            self.last_call_t = time.monotonic()
        if self.latency:
            time.sleep(self.latency)
        if self.fail_at is not None and n == self.fail_at:
            with self.lock:
                self.in_call -= 1
                self.failed_t = time.monotonic()
            raise RuntimeError("injected checkpoint failure at call %d" % n)
        with self.lock:
            self.delivered.extend(ids)
            self.tok += 1
            tok = "T%d" % self.tok
            self.in_call -= 1
            self.last_call_t = time.monotonic()
        # some responses are paginated: the rest of the updated state has to be fetched with GetDurableExecutionState
        marker = "m%d" % n if (self.paged and n % self.paged == 0) else None
        # the answer reports the operations the call changed (with their parent links), which the SDK merges into its view of the history
        from aws_durable_execution_sdk_python.lambda_service import Operation

        ops = [Operation.from_dict({"Id": u.operation_id, "ParentId": u.parent_id, "Type": "STEP", "Status": "SUCCEEDED", "Name": u.name}) for u in updates]
        return CheckpointOutput(checkpoint_token=tok, new_execution_state=CheckpointUpdatedExecutionState(operations=ops, next_marker=marker))

    def get_execution_state(self, *a, **k):
        from aws_durable_execution_sdk_python.lambda_service import StateOutput

        with self.lock:
            self.page_fetches += 1
            nth = self.page_fetches
            self.last_call_t = time.monotonic()
        if self.fail_page_at is not None and nth == self.fail_page_at:
            raise RuntimeError("injected page fetch failure at fetch %d" % nth)
        return StateOutput()


def trial(case):  # noqa: C901, PLR0912, PLR0915
    from aws_durable_execution_sdk_python.exceptions import BackgroundThreadError
    from aws_durable_execution_sdk_python.state import CheckpointBatcherConfig, ExecutionState

    rng = random.Random(case["seed"])
    cfg = CheckpointBatcherConfig(max_batch_size_bytes=case["max_bytes"], max_batch_time_seconds=case["window"],
                                  max_batch_operations=case["max_ops"])
    client = RecClient(case["latency"], case.get("fail_at"))
    client.paged = case.get("paged", 0)
    client.fail_page_at = case.get("fail_page_at")
    # lock-order sanitizer over the SDK's own locks (dw/lockorder.py): producers and the checkpoint thread taking two of the state's
    # locks in opposite orders is a feasible deadlock - every synchronous caller would block for ever - whether or not it struck here
    from dw import lockorder

    lockorder.install()
    lockorder.reset()
    st = ExecutionState("arn:c05", "T0", {}, client, batcher_config=cfg)
    handover: list[str] = []
    held, achieved, consumer_ref = [False], [False], [None]
    attached = isinstance(getattr(st, "_checkpoint_queue", None), queue.Queue)
    if attached:
        class HQ(queue.Queue):
            def _put(self, item):  # runs under the queue's own mutex: exact hand-over order
                u = item.operation_update
                handover.append(u.operation_id if u is not None else None)
                super()._put(item)

        st._checkpoint_queue = HQ()
    import aws_durable_execution_sdk_python.state as m_state

    orig_qop = getattr(m_state, "QueuedOperation", None)
    if case.get("hold_put") and orig_qop is not None:
        # targeted pause plan: park producer p1 between the failed-check and the enqueue (outside any lock: the wrapper
        # object is built there) until the consumer has failed and finished draining - an interleaving a preemption could create
        def parked_qop(*a, **kw):
            if threading.current_thread().name == "c05-p1" and not held[0]:
                held[0] = True
                t_end = time.monotonic() + 3
                rel = case.get("release_after_ms")
                if rel is None:
                    while consumer_ref[0].is_alive() and time.monotonic() < t_end:
                        time.sleep(0.002)
                    achieved[0] = not consumer_ref[0].is_alive()
                else:
                    # released a chosen time after the failing call raised, i.e. somewhere INSIDE the consumer's failure handling
                    # (which the slow-consumer hook stretches to ~1 ms per statement)
                    while client.failed_t is None and time.monotonic() < t_end:
                        time.sleep(0.0002)
                    while client.failed_t is not None and time.monotonic() < client.failed_t + rel / 1000.0:
                        time.sleep(0.0001)
                    achieved[0] = client.failed_t is not None
            return orig_qop(*a, **kw)

        m_state.QueuedOperation = parked_qop
    consumer = threading.Thread(target=st.checkpoint_batches_forever, name="c05-consumer", daemon=True)
    consumer_ref[0] = consumer
    consumer.start()
    results: dict[int, list] = {}
    pstate: dict[int, str] = {}
    sync_returns = []  # (uid, delivered_len_after_return, handover_index)
    plans = case["plans"]
    glyphs = case.get("glyphs") or ["p"]
    start = threading.Barrier(len(plans))

    def producer(pi, plan):
        results[pi] = []
        start.wait()
        for j, (size, sync, pause) in enumerate(plan):
            uid = "p%d-%d" % (pi, j)
            upd = None if size is None else _mk_update(uid, size, glyphs[(pi + j) % len(glyphs)])
            if pause:
                time.sleep(pause)
            pstate[pi] = "in-call:%s:%s" % (uid, "sync" if sync else "async")
            try:
                st.create_checkpoint(upd, is_sync=sync)
            except BackgroundThreadError:
                results[pi].append((uid, "bg-error"))
                pstate[pi] = "failed"
                return
            if sync and upd is not None:
                with client.lock:
                    snap = list(client.delivered)
                sync_returns.append((uid, snap))
            results[pi].append((uid, "ok"))
        pstate[pi] = "done"

    ths = [threading.Thread(target=producer, args=(i, p), name="c05-p%d" % i, daemon=True) for i, p in enumerate(plans)]
    for t in ths:
        t.start()
    deadline = time.monotonic() + case.get("budget", 20)
    quiescent = False
    while any(t.is_alive() for t in ths) and time.monotonic() < deadline:
        time.sleep(0.02)
        with client.lock:
            idle = client.in_call == 0 and time.monotonic() - client.last_call_t > 2.0 + case["window"]
        if idle:
            quiescent = True
            break
    viol = []
    blocked = [i for i, t in enumerate(ths) if t.is_alive()]
    verdict = "ok"
    if blocked:
        if quiescent and all(str(pstate.get(i, "")).startswith("in-call") for i in blocked):
            ov = getattr(st, "_overflow_queue", None)
            kinds = sorted({pstate[i].rsplit(":", 1)[1] for i in blocked})
            where = "overflow-nonempty" if (ov is not None and not ov.empty()) else "queues-empty"
            viol.append(V(PROP, "C05/sync-caller-never-released/%s" % where,
                          "closed system quiescent (no API call for >2s, client idle) yet producer(s) %s still blocked in create_checkpoint (%s); overflow=%s main=%s"
                          % (blocked, kinds, None if ov is None else ov.qsize(), st._checkpoint_queue.qsize())))
        else:
            verdict = "inconclusive"
    st.stop_checkpointing()
    consumer.join(timeout=3)
    if orig_qop is not None:
        m_state.QueuedOperation = orig_qop
    delivered = list(client.delivered)
    hand = [h for h in handover if h is not None]
    # only judge items handed over before the last successful synchronous return of each producer (async tail may be abandoned)
    failed = (case.get("fail_at") is not None and len(client.calls) > case["fail_at"]) or \
        (case.get("fail_page_at") is not None and client.page_fetches >= case["fail_page_at"])
    if len(set(delivered)) != len(delivered):
        viol.append(V(PROP, "C05/duplicate-delivery", "an update was delivered twice"))
    if attached and not failed:
        pos = {u: i for i, u in enumerate(hand)}
        idx = [pos[u] for u in delivered if u in pos]
        if idx != sorted(idx):
            bad = next(i for i in range(1, len(idx)) if idx[i] < idx[i - 1])
            viol.append(V(PROP, "C05/reordered", "delivered order differs from hand-over order near %s" % delivered[bad]))
        dset = set(delivered)
        for uid, snap in sync_returns:
            h = pos.get(uid)
            if h is None:
                continue
            sset = set(snap)
            missing = [u for u in hand[: h + 1] if u not in sset]
            if missing:
                viol.append(V(PROP, "C05/not-delivered-before-sync-return", "when sync %s returned, %d earlier hand-over(s) were undelivered (first %s)" % (uid, len(missing), missing[0])))
                break
        if not blocked:
            # every producer finished: everything up to each producer's last sync item must be delivered exactly once
            for pi, plan in enumerate(plans):
                last_sync = max((j for j, (sz, sync, _p) in enumerate(plan) if sync and sz is not None), default=-1)
                for j in range(last_sync + 1):
                    if plan[j][0] is not None and "p%d-%d" % (pi, j) not in dset:
                        viol.append(V(PROP, "C05/lost", "update p%d-%d handed over before a returned sync checkpoint was never delivered" % (pi, j)))
    else:
        # internals-free weaker form: per-producer program order
        seen: dict[str, int] = {}
        for u in delivered:
            p, j = u.split("-")
            if int(j) < seen.get(p, -1):
                viol.append(V(PROP, "C05/reordered-per-producer", "producer %s order broken at %s" % (p, u)))
            seen[p] = int(j)
    prev = "T0"
    ok_calls = 0
    for n, (tok, ids, sizes) in enumerate(client.calls):
        if tok != prev:
            viol.append(V(PROP, "C05/token-chain-broken", "call %d carried %s, previous call returned %s" % (n, tok, prev)))
            break
        if not (case.get("fail_at") == n):
            ok_calls += 1
            prev = "T%d" % ok_calls
        if len(ids) > case["max_ops"]:
            viol.append(V(PROP, "C05/operation-count-limit-exceeded", "call %d carried %d updates, limit %d" % (n, len(ids), case["max_ops"])))
        if sum(sizes) > case["max_bytes"] and len(ids) > 1:
            viol.append(V(PROP, "C05/size-limit-exceeded", "call %d carried %d bytes in %d updates, limit %d" % (n, sum(sizes), len(ids), case["max_bytes"])))
    if failed:
        if case.get("fail_at") is not None and len(client.calls) > case["fail_at"] + 1:
            viol.append(V(PROP, "C05/api-call-after-failure", "%d call(s) after the failed one" % (len(client.calls) - case["fail_at"] - 1)))
        dset = set(delivered)
        for pi, res in results.items():
            for uid, oc in res:
                j = int(uid.split("-")[1])
                size, sync, _ = plans[pi][j]
                if oc == "ok" and sync and size is not None and uid not in dset:
                    viol.append(V(PROP, "C05/sync-success-without-delivery", "%s returned success but was never delivered" % uid))
    lo = lockorder.report()
    for inv_ in lo["inversions"]:
        viol.append(V(PROP, "C05/lock-order-inversion/%s-vs-%s" % tuple(sorted([str(inv_["a"]).split(":")[0], str(inv_["b"]).split(":")[0]])),
                      "locks created at %s and %s are taken in opposite orders by threads %s (at %s and %s): a feasible deadlock of the checkpoint pipeline"
                      % (inv_["a"], inv_["b"], inv_["threads"], inv_["ab_at"], inv_["ba_at"])))
    LOCK_STATS["acquires"] = LOCK_STATS.get("acquires", 0) + lo["acquires"]
    LOCK_STATS["edges"] = max(LOCK_STATS["edges"], lo["edges"])
    if case.get("hold_put") and not achieved[0]:
        verdict = "inconclusive"
    return viol, verdict, {"targeted": 1 if (case.get("hold_put") and achieved[0]) else 0, "calls": len(client.calls), "delivered": len(delivered), "handover": len(hand), "attached": attached,
                           "oversize": sum(1 for p in plans for (sz, _s, _p) in p if sz is not None and sz > case["max_bytes"]),
                           "overflowed_batches": sum(1 for (_t, ids, sizes) in client.calls if sum(sizes) > 0.5 * case["max_bytes"])}


def cases(tier, seed):
    from checks.insitu import insitu_cases

    yield from insitu_cases(tier, seed)
    n = 500 if tier == "quick" else 6000
    rng = random.Random(seed)
    for i in range(12 if tier == "quick" else 60):
        # forced lost-wake-up order: p1 passes the failed-check, the consumer fails on p0's update and drains, then p1 enqueues
        yield {"label": "lost-wakeup-forced", "seed": seed * 77 + i, "max_bytes": 750 * 1024, "max_ops": 250, "window": 0.0, "latency": 0.002,
               "plans": [[(10, True, 0)], [(10, rng.random() < 0.7, 0.0), (5, True, 0)]], "fail_at": 0, "perturb": "none", "hold_put": True,
               "budget": 8}
    for i in range(40 if tier == "quick" else 400):
        # the same producer released at a swept instant inside the consumer's failure handling, which is slowed to ~1 ms per statement
        yield {"label": "lost-wakeup-sweep", "seed": seed * 79 + i, "max_bytes": 750 * 1024, "max_ops": 250, "window": 0.0, "latency": 0.002,
               "plans": [[(10, True, 0)], [(10, rng.random() < 0.7, 0.0), (5, True, 0)]], "fail_at": 0, "perturb": "slow-consumer", "hold_put": True,
               "release_after_ms": (i % 40) * 0.75, "budget": 8}
    # the failing call carries nothing but empty checkpoints (the timer thread's refresh calls): the batch has no update at all
    for i in range(8 if tier == "quick" else 40):
        np_ = 1 + i % 3
        plans = [[(None, True, 0)] + ([(10, i % 2 == 0, 0.0)] if i % 4 >= 2 else []) + [(5, True, 0)] for _ in range(np_)]
        yield {"label": "batcher", "seed": seed * 83 + i, "max_bytes": 750 * 1024, "max_ops": 250, "window": [0.0, 0.005][i % 2], "latency": 0.002,
               "plans": plans, "fail_at": 0, "paged": 0, "fail_page_at": None, "perturb": "none", "glyphs": ["p"]}
    for i in range(n):
        np_ = rng.choice([1, 1, 2, 3, 4, 8])
        max_bytes = rng.choice([400, 1000, 5000, 750 * 1024])
        max_ops = rng.choice([1, 2, 3, 5, 250])
        window = rng.choice([0.0, 0.001, 0.005, 0.005, 0.05, 1.0 if i % 40 == 0 else 0.005])
        latency = rng.choice([0, 0, 0.001, 0.005, 0.02])
        plans = []
        for _ in range(np_):
            m = rng.randrange(1, 9)
            plan = []
            for j in range(m):
                r = rng.random()
                if r < 0.08:
                    size = None  # empty checkpoint
                elif r < 0.2:
                    size = int(max_bytes * rng.choice([0.6, 0.9, 1.2, 2.0])) if max_bytes < 100000 else rng.choice([10, 300000, 500000])
                else:
                    size = rng.choice([1, 10, 50, 100, max(1, max_bytes // 3)]) if max_bytes < 100000 else rng.choice([1, 100, 2000])
                sync = rng.random() < 0.5
                pause = rng.choice([0, 0, 0, 0.001, 0.004])
                plan.append((size, sync, pause))
            plan.append((rng.choice([5, 20]), True, 0))  # final synchronous barrier
            plans.append(plan)
        fail_at = rng.randrange(0, 4) if i % 6 == 5 else None
        paged = rng.choice([0, 0, 1, 2, 3])
        fail_page_at = rng.randrange(1, 4) if (paged and i % 6 == 2) else None
        yield {"label": "batcher", "seed": seed * 1000003 + i, "max_bytes": max_bytes, "max_ops": max_ops, "window": window,
               "latency": latency, "plans": plans, "fail_at": fail_at, "paged": paged, "fail_page_at": fail_page_at,
               "perturb": rng.choice(["none", "none", "yield"]),
               "glyphs": rng.choice([["p"], ["p"], ["\u00e9"], ["p", "\u6f22"], ["\U0001F600", "p", "\u00e9"]])}


def run_case(case):
    if case.get("kind") == "insitu":
        from checks.insitu import run_insitu

        return run_insitu(case, PROP)
    from checks.c19 import Yield

    if case["perturb"] == "slow-consumer":
        with _SlowConsumer() as yy:
            viol, verdict, st = trial(case)
        hits = yy.hits
    elif case["perturb"] == "yield":
        y = Yield(case["seed"], 0.05)
        # widen the filter to state.py as well
        import checks.c19 as c19mod  # noqa: F401

        with _StateYield(case["seed"]) as yy:
            viol, verdict, st = trial(case)
        hits = yy.hits
    else:
        viol, verdict, st = trial(case)
        hits = 0
    for v in viol:
        v["case"] = case
    cls = "prod%d|ops%d|bytes%d|win%s|lat%s|%s|over%d|fail%s|%s" % (len(case["plans"]), case["max_ops"], case["max_bytes"], case["window"], case["latency"],
                                                             case["perturb"], min(st["oversize"], 2), case.get("fail_at") is not None,
                                                             "ascii" if (case.get("glyphs") or ["p"]) == ["p"] else "non-ascii")
    return {"execs": 1, "classes": {cls} if st["calls"] else set(), "violations": viol,
            "interleavings": {"%s" % (hash((st["calls"], st["delivered"], cls)) & 0xFFFFFFFF)},
            "obs": {"api_calls": st["calls"], "updates_delivered": st["delivered"], "handover_hook_attached": 1 if st["attached"] else 0,
                    "oversize_updates": st["oversize"], "inconclusive_trials": 1 if verdict == "inconclusive" else 0, "yield_hits": hits,
                    "failure_injected": 1 if case.get("fail_at") is not None else 0,
                    "trials_with_paginated_responses": 1 if case.get("paged") else 0,
                    "page_fetch_failure_injected": 1 if case.get("fail_page_at") is not None else 0,
                    "targeted_lost_wakeup_order_achieved": st["targeted"],
                    "trials_with_non_ascii_payloads": 0 if (case.get("glyphs") or ["p"]) == ["p"] else 1,
                    "sdk_lock_acquisitions_observed_by_the_lock_order_sanitizer": LOCK_STATS.pop("acquires", 0) or 0},
            "sample": {"label": "batcher", "producers": len(case["plans"]), "max_ops": case["max_ops"], "max_bytes": case["max_bytes"],
                       "window": case["window"], "plan0": case["plans"][0][:5], "calls": st["calls"], "delivered": st["delivered"]}}


class _StateYield:
    TOOL = 3

    def __init__(self, seed):
        self.rng = random.Random(seed)
        self.hits = 0
        self.lock = threading.Lock()

    def __enter__(self):
        mon = sys.monitoring
        try:
            mon.use_tool_id(self.TOOL, "c05-yield")
        except ValueError:
            pass

        def on_line(code, line):
            fn = code.co_filename
            if not (fn.endswith("aws_durable_execution_sdk_python/state.py") or fn.endswith("aws_durable_execution_sdk_python/threading.py")):
                return mon.DISABLE
            with self.lock:
                r, r2 = self.rng.random(), self.rng.random()
            if r < 0.05:
                self.hits += 1
                time.sleep(0 if r2 < 0.7 else r2 * 0.001)
            return None

        mon.register_callback(self.TOOL, mon.events.LINE, on_line)
        mon.set_events(self.TOOL, mon.events.LINE)
        self.old = sys.getswitchinterval()
        sys.setswitchinterval(1e-5)
        return self

    def __exit__(self, *a):
        sys.monitoring.set_events(self.TOOL, 0)
        sys.monitoring.register_callback(self.TOOL, sys.monitoring.events.LINE, None)
        sys.monitoring.free_tool_id(self.TOOL)
        sys.setswitchinterval(self.old)


class _SlowConsumer(_StateYield):
    """Every statement the checkpoint thread executes in state.py / threading.py takes ~1 ms (only delays one thread)."""

    def __init__(self):
        super().__init__(0)

    def __enter__(self):
        mon = sys.monitoring
        try:
            mon.use_tool_id(self.TOOL, "c05-slow")
        except ValueError:
            pass

        def on_line(code, line):
            fn = code.co_filename
            if not (fn.endswith("aws_durable_execution_sdk_python/state.py") or fn.endswith("aws_durable_execution_sdk_python/threading.py")):
                return mon.DISABLE
            if threading.current_thread().name == "c05-consumer":
                self.hits += 1
                time.sleep(0.001)
            return None

        mon.register_callback(self.TOOL, mon.events.LINE, on_line)
        mon.set_events(self.TOOL, mon.events.LINE)
        self.old = sys.getswitchinterval()
        return self


RULE = ("real ExecutionState + recording fake service client: 1-8 producer threads issuing scripted mixes of synchronous / asynchronous / empty "
        "checkpoints with sizes from 1 byte to 2x the size limit (incl. an oversize update that is not first in its batch), batcher configs "
        "max_ops in {1,2,3,5,250} x max_bytes in {400,1000,5000,750KB} x window in {0,1,5,50ms,1s}, client latency 0-20 ms, LINE-level yield "
        "injection in state.py/threading.py, an injected client failure in 1/6 of the trials, paginated checkpoint responses (every 1st-3rd call) with an injected page-fetch failure in some, and a sweep in which a producer parked between the failed-check and the enqueue is released 0-30 ms after the failing call raised while the checkpoint thread's failure handling is slowed to ~1 ms per statement. Exact hand-over order is recorded by a "
        "Queue._put override (runs under the queue's own mutex). Oracle: delivered order = hand-over order, no duplicates, nothing handed "
        "over before a returned sync checkpoint is lost or undelivered at its return, token chain, count and size limits (single oversize "
        "update excepted), and bounded release decided logically (closed system quiescent, client idle, producer still inside "
        "create_checkpoint). A class = the configuration tuple.")

if __name__ == "__main__":
    sys.exit(harness.main_for("checks.c05", PROP, "exploration", RULE,
                              ["hand-over hook depends on the _checkpoint_queue attribute being a queue.Queue (falls back to per-producer order)",
                               "real clock; quiescence rule: no API call for 2s+window with the client idle"],
                              {"api_calls": 1000, "updates_delivered": 2000, "targeted_lost_wakeup_order_achieved": 6, "insitu_contract_evaluations_collect_batch": 100}))
