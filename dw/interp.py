"""Workflow program interpreter (child side). Programs are plain dict trees (see DESIGN §1.3).

Every DurableContext call is bracketed by call/ret|exc|susp|abort events; every user-supplied
function is a probe emitting fn_enter/fn_exit. Behaviour of a user function is a pure function of
(path, attempt number reported by the backend, script) so programs are deterministic.
"""
from __future__ import annotations

import copy
import json

from aws_durable_execution_sdk_python import config as C
from aws_durable_execution_sdk_python import exceptions as X
from aws_durable_execution_sdk_python.execution import durable_execution
from aws_durable_execution_sdk_python.retries import (
    RetryDecision,
    RetryPresets,
    RetryStrategyConfig,
    create_retry_strategy,
)
from aws_durable_execution_sdk_python.serdes import JsonSerDes, SerDes
from aws_durable_execution_sdk_python.waits import (
    WaitForConditionConfig,
    WaitForConditionDecision,
)

from dw.canon import canon, key_order


class UserErr(Exception):
    pass


class OtherErr(Exception):
    pass


class DataErr(Exception):
    """An ordinary application exception that happens to expose `data` / `stack_trace` attributes."""

    def __init__(self, msg):
        super().__init__(msg)
        self.data = {"code": 7, "blob": b"\x00\x01"}
        self.stack_trace = 5


class JsonDataErr(Exception):
    def __init__(self, msg):
        super().__init__(msg)
        self.data = {"code": 7}


EXC = {
    "ValueError": ValueError,
    "KeyError": KeyError,
    "RuntimeError": RuntimeError,
    "TypeError": TypeError,
    "UserErr": UserErr,
    "OtherErr": OtherErr,
    "DataErr": DataErr,
    "JsonDataErr": JsonDataErr,
    "ExecutionError": X.ExecutionError,
    "InvocationError": X.InvocationError,
    "ValidationError": X.ValidationError,
    "SerDesError": X.SerDesError,
    "DurableExecutionsError": X.DurableExecutionsError,
    "SystemExit": SystemExit,
    "KeyboardInterrupt": KeyboardInterrupt,
    "Exception": Exception,
}


def make_exc(cls: str, msg: str):
    if cls == "CallbackError":
        return X.CallbackError(msg)
    if cls == "CallableRuntimeError":
        return X.CallableRuntimeError(msg, "Orig", None, None)
    if cls == "StepInterruptedError":
        return X.StepInterruptedError(msg)
    return EXC[cls](msg)


class Utf8JsonSerDes(SerDes):
    """JSON serdes that keeps non-ASCII text (len(str) != encoded bytes)."""

    def serialize(self, value, _ctx):
        return json.dumps(value, ensure_ascii=False)

    def deserialize(self, data, _ctx):
        return json.loads(data)


class TaggedSerDes(SerDes):
    """A custom serdes whose wire form is visibly different (prefix) and which round-trips JSON values."""

    def serialize(self, value, _ctx):
        return "TAG:" + json.dumps(value)

    def deserialize(self, data, _ctx):
        assert data.startswith("TAG:")
        return json.loads(data[4:])


class TaggedBatchSerDes(SerDes):
    """A batch-level serdes (MapConfig / ParallelConfig `serdes`) that also has to cope with the items when no item serdes is given:
    plain values as TAG:<json>, a BatchResult as TAGBR:<json of its dict form>."""

    def serialize(self, value, _ctx):
        from aws_durable_execution_sdk_python.concurrency.models import BatchResult

        if isinstance(value, BatchResult):
            return "TAGBR:" + json.dumps(value.to_dict())
        return "TAG:" + json.dumps(value)

    def deserialize(self, data, _ctx):
        from aws_durable_execution_sdk_python.concurrency.models import BatchResult

        if data.startswith("TAGBR:"):
            return BatchResult.from_dict(json.loads(data[6:]))
        assert data.startswith("TAG:")
        return json.loads(data[4:])


class ContextBoundSerDes(SerDes):
    """Binds every payload to the operation and execution it was written for (as an envelope-encrypting or storage-key based
    serdes does): reading it back under another context is an error."""

    def serialize(self, value, ctx):
        return json.dumps({"op": getattr(ctx, "operation_id", None), "arn": getattr(ctx, "durable_execution_arn", None), "v": value})

    def deserialize(self, data, ctx):
        d = json.loads(data)
        if d.get("op") != getattr(ctx, "operation_id", None) or d.get("arn") != getattr(ctx, "durable_execution_arn", None):
            msg = "payload is bound to another operation/execution"
            raise ValueError(msg)
        return d["v"]


class ExoticSerDes(SerDes):
    """Handles a value type the default serializer rejects (sets), as an item serdes for a custom result class would."""

    def serialize(self, value, _ctx):
        return json.dumps({"set": sorted(value)} if isinstance(value, (set, frozenset)) else {"v": value})

    def deserialize(self, data, _ctx):
        d = json.loads(data)
        return set(d["set"]) if "set" in d else d["v"]


class WriteOnlySerDes(SerDes):
    """Cannot read back what it wrote (an asymmetric / misconfigured serdes)."""

    def serialize(self, value, _ctx):
        return "W:" + json.dumps(value)

    def deserialize(self, data, _ctx):
        msg = "cannot read back"
        raise ValueError(msg)


class OutageSerDes(SerDes):
    """Round-trips JSON values, but reading fails from the second invocation of the execution on (an outage of the store it offloads to)."""

    INV = [1]

    def serialize(self, value, _ctx):
        return json.dumps(value)

    def deserialize(self, data, _ctx):
        if OutageSerDes.INV[0] >= 2:
            msg = "payload store unavailable"
            raise ConnectionError(msg)
        return json.loads(data)


def _summary_fn(cfgd):
    """The user-supplied summary generator of a context / map / parallel: a constant, or one that fails for this result."""
    if "summary_raises" in cfgd:
        def gen(r, _cls=cfgd["summary_raises"]):
            raise {"IndexError": IndexError, "ValueError": ValueError, "KeyError": KeyError}.get(_cls, RuntimeError)("summary generator failed")
        return gen
    if "summary" in cfgd:
        return lambda r: cfgd["summary"]
    return None


SERDES = {None: None, "exotic": ExoticSerDes(), "writeonly": WriteOnlySerDes(), "outage": OutageSerDes(), "json": JsonSerDes(), "utf8json": Utf8JsonSerDes(), "tagged": TaggedSerDes(), "tagbr": TaggedBatchSerDes(), "ctxbound": ContextBoundSerDes()}


_PROCESS_LOGGER = None


class CapLogger:
    def __init__(self, rt):
        self.rt = rt

    def _rec(self, level, msg, args, extra):
        self.rt.rpc("logrec", level=level, msg=str(msg), extra=dict(extra or {}))

    def debug(self, msg, *a, extra=None):
        self._rec("debug", msg, a, extra)

    def info(self, msg, *a, extra=None):
        self._rec("info", msg, a, extra)

    def warning(self, msg, *a, extra=None):
        self._rec("warning", msg, a, extra)

    def error(self, msg, *a, extra=None):
        self._rec("error", msg, a, extra)

    def exception(self, msg, *a, extra=None):
        self._rec("exception", msg, a, extra)


def duration(s):
    return C.Duration(seconds=int(s))


class Interp:
    def __init__(self, prog: dict, rt, inv_no: int):
        self.prog = prog
        self.rt = rt
        self.inv_no = inv_no
        OutageSerDes.INV[0] = inv_no
        self.chains: dict[int, list] = {}

    def next_chain(self, ctx) -> str:
        """Position chain of the next operation created on ctx (indices only; ids must be a function of it)."""
        c = self.chains.setdefault(id(ctx), ["", 0])
        c[1] += 1
        return "%s%d" % (c[0], c[1])

    # ------------------------------------------------------------------ plumbing
    def call(self, path, kind, thunk, phase=None, cv=canon, chain=None):
        rt = self.rt
        rt.rpc("call", path=path, opkind=kind, phase=phase, chain=chain)
        try:
            v = thunk()
        except X.SuspendExecution as e:
            rt.rpc("susp", path=path, opkind=kind, phase=phase, timed=isinstance(e, X.TimedSuspendExecution),
                   until=getattr(e, "scheduled_timestamp", None))
            raise
        except (X.BackgroundThreadError, X.OrphanedChildException) as e:
            rt.rpc("abort", path=path, opkind=kind, phase=phase, cls=type(e).__name__)
            raise
        except BaseException as e:
            rt.rpc("exc", path=path, opkind=kind, phase=phase, cls=type(e).__name__, msg=str(e),
                   mro=[c.__name__ for c in type(e).__mro__],
                   etype=getattr(e, "error_type", None))
            raise
        rt.rpc("ret", path=path, opkind=kind, phase=phase, val=cv(v), ko=key_order(v) if cv is canon else "")
        return v

    def behave(self, path, kind, script, extra=None):
        """Common body of a user-supplied function probe. Returns the value for 'ok'."""
        info = self.rt.rpc("fn_enter", path=path, fnkind=kind, **(extra or {}))
        attempt = info.get("attempt", 1)
        beh = script[min(attempt - 1, len(script) - 1)] if script else {"do": "ok", "val": None}
        if beh.get("by_entry"):
            seq = beh["by_entry"]
            beh = seq[min(info.get("n", 1) - 1, len(seq) - 1)]
        if beh.get("gate"):
            self.rt.rpc("gate", name=beh["gate"], path=path)
        do = beh.get("do", "ok")
        if do == "fail":
            self.rt.rpc("fn_exit", path=path, fnkind=kind, outcome="raise:" + beh["cls"])
            raise make_exc(beh["cls"], beh.get("msg", "boom@" + path))
        self.rt.rpc("fn_exit", path=path, fnkind=kind, outcome="ok")
        return beh

    def value_of(self, beh, default=None):
        if "val" in beh:
            return copy.deepcopy(beh["val"])  # user functions build a fresh value on every call
        if "big" in beh:  # {"big": n_chars, "ch": "x"} -> large string
            return beh.get("ch", "x") * beh["big"]
        return default

    def retry_strategy(self, path, spec):
        if spec is None:
            return None
        rt = self.rt
        kind = spec.get("kind")
        if kind == "preset":
            inner = getattr(RetryPresets, spec["name"])()
        elif kind == "config":
            cfg = dict(spec["cfg"])
            for k in ("initial_delay", "max_delay"):
                if k in cfg:
                    cfg[k] = duration(cfg[k])
            if "jitter" in cfg:
                cfg["jitter_strategy"] = C.JitterStrategy(cfg.pop("jitter"))
            if "types" in cfg:
                cfg["retryable_error_types"] = [EXC[t] for t in cfg.pop("types")]
            inner = create_retry_strategy(RetryStrategyConfig(**cfg))
        else:
            decisions = spec["decisions"]

            def inner(err, attempts_made):
                d = decisions[min(attempts_made - 1, len(decisions) - 1)]
                if d[0] == "retry":
                    if attempts_made % 2:
                        return RetryDecision.retry(duration(d[1]))
                    return RetryDecision(should_retry=True, delay=duration(d[1]))  # plain constructor, equally public
                return RetryDecision.no_retry() if attempts_made % 2 else RetryDecision(should_retry=False, delay=C.Duration())

        def strategy(err, attempts_made):
            d = inner(err, attempts_made)
            rt.rpc("strategy", path=path, err=type(err).__name__, msg=str(err), attempts=attempts_made,
                   retry=bool(d.should_retry), delay=d.delay_seconds)
            return d

        return strategy

    # ------------------------------------------------------------------ nodes
    def run_body(self, ctx, body, prefix, item=None):
        outs = []
        for i, node in enumerate(body):
            outs.append(self.run_node(ctx, node, "%s%d" % (prefix, i), outs, item))
        return outs

    def run_node(self, ctx, node, path, outs, item=None):  # noqa: C901, PLR0911, PLR0912
        k = node["k"]
        if k == "try":
            try:
                return ("ok", self.run_node(ctx, node["body"], path, outs, item))
            except Exception as e:  # noqa: BLE001
                catch = node.get("catch", "*")
                names = [c.__name__ for c in type(e).__mro__]
                if catch == "*" or any(c in names for c in catch):
                    self.rt.rpc("caught", path=path, cls=type(e).__name__, msg=str(e))
                    return ("exc", type(e).__name__, str(e))
                raise
        if k == "log":
            self.rt.rpc("logcall", tag=node["tag"], path=path, where="ctx")
            level = node.get("level", "info")
            if level == "exception":
                try:
                    raise ValueError("handled by the workflow")
                except ValueError:
                    ctx.logger.exception(node["tag"], extra={"tag": node["tag"]})
            else:
                getattr(ctx.logger, level)(node["tag"], extra={"tag": node["tag"]})
            return None
        if k == "gate":
            self.rt.rpc("gate", name=node["name"], path=path)
            return None
        if k == "raise":
            raise make_exc(node["cls"], node.get("msg", "raised@" + path))
        if k == "if":
            ref = outs[node["ref"]]
            taken = "t" if canon(ref) == node["eq"] else "e"
            self.rt.rpc("branch_taken", path=path, taken=taken)
            body = node["then"] if taken == "t" else node.get("else", [])
            return self.run_body(ctx, body, "%s/%s" % (path, taken), item)
        if k == "step":
            return self.do_step(ctx, node, path, item)
        if k == "uthreads":
            return self.do_uthreads(ctx, node, path)
        if k == "wait":
            return self.call(path, "wait", lambda: ctx.wait(duration(node["s"]), name=path), chain=self.next_chain(ctx))
        if k == "cb":
            return self.do_callback(ctx, node, path, item)
        if k == "wfcb":
            return self.do_wfcb(ctx, node, path)
        if k == "invoke":
            return self.do_invoke(ctx, node, path)
        if k == "wfc":
            return self.do_wfc(ctx, node, path)
        if k == "child":
            return self.do_child(ctx, node, path, item)
        if k == "par":
            return self.do_par(ctx, node, path)
        if k == "map":
            return self.do_map(ctx, node, path)
        raise AssertionError("unknown node kind %r" % k)

    def do_step(self, ctx, node, path, item):
        script = node.get("script") or [{"do": "ok", "val": node.get("val")}]
        if item is not None and node.get("by_item"):
            script = node["by_item"][item[0] % len(node["by_item"])]

        def fn(step_ctx):
            if node.get("log"):
                self.rt.rpc("logcall", tag=path + ":in", path=path, where="step")
                step_ctx.logger.info(path + ":in", extra={"tag": path + ":in"})
            beh = self.behave(path, "step", script)
            return self.value_of(beh)

        cfg = C.StepConfig(
            retry_strategy=self.retry_strategy(path, node.get("retry")),
            step_semantics=C.StepSemantics.AT_MOST_ONCE_PER_RETRY
            if node.get("sem") == "most"
            else C.StepSemantics.AT_LEAST_ONCE_PER_RETRY,
            serdes=SERDES[node.get("serdes")],
        )
        v = self.call(path, "step", lambda: ctx.step(fn, name=path, config=cfg), chain=self.next_chain(ctx))
        if node.get("mutate"):  # a workflow that updates the container it was handed (after the delivery was recorded)
            if isinstance(v, list):
                v.append("mutated@" + path)
            elif isinstance(v, dict):
                v["mutated"] = path
        return v

    def do_uthreads(self, ctx, node, path):
        """User threads sharing one context (the SDK documents its id generation as thread-safe): T threads leave a barrier and
        each start N operations on ctx. Which thread gets which call index is up to the schedule, so these operations carry no
        position chain; what must hold is that no two of them share an identifier and that their parent links are right."""
        import threading

        T, N = node["threads"], node["n"]
        res, errs = {}, []
        bar = threading.Barrier(T)

        def inner(c, p):
            return self.call(p + "/0", "step", lambda: c.step(lambda _sc: "in:" + p, name=p + "/0"))

        def run(t):
            try:
                bar.wait()
                for j in range(N):
                    p = "%s/~u%d_%d" % (path, t, j)
                    if node.get("op") == "child":
                        res[(t, j)] = self.call(p, "child", lambda p=p: ctx.run_in_child_context(lambda c: inner(c, p), name=p))
                    else:
                        res[(t, j)] = self.call(p, "step", lambda p=p: ctx.step(lambda _sc: "v:" + p, name=p))
            except BaseException as e:  # noqa: BLE001
                errs.append(e)

        ths = [threading.Thread(target=run, args=(t,), daemon=True, name="ut-%d" % t) for t in range(T)]
        for th in ths:
            th.start()
        for th in ths:
            th.join()
        self.chains.setdefault(id(ctx), ["", 0])[1] += T * N  # the context's call index moved on by T*N
        if errs:
            raise errs[0]
        return [res[k] for k in sorted(res)]

    def do_callback(self, ctx, node, path, item):
        cfgd = node.get("cfg") or {}
        cfg = C.CallbackConfig(
            timeout=duration(cfgd.get("timeout", 0)),
            heartbeat_timeout=duration(cfgd.get("heartbeat", 0)),
            serdes=SERDES[cfgd.get("serdes")],
        )
        cb = self.call(path, "cb", lambda: ctx.create_callback(name=path, config=cfg), phase="create",
                       cv=lambda c: canon(c.callback_id), chain=self.next_chain(ctx))
        between = self.run_body(ctx, node.get("between") or [], path + "/~", item)
        v = self.call(path, "cb", cb.result, phase="result")
        self._mutate(node, v, path)
        return (v, between) if between else v

    @staticmethod
    def _mutate(node, v, path):
        """A workflow that updates the container it was handed (after the delivery was recorded)."""
        if node.get("mutate"):
            if isinstance(v, list):
                v.append("mutated@" + path)
            elif isinstance(v, dict):
                v["mutated"] = path

    def do_wfcb(self, ctx, node, path):
        script = node.get("script") or [{"do": "ok"}]
        cfgd = node.get("cfg") or {}

        def submitter(callback_id, wctx):
            self.behave(path + "@sub", "submitter", script, extra={"callback_id": callback_id})

        cfg = None
        if cfgd or node.get("retry"):
            cfg = C.WaitForCallbackConfig(
                timeout=duration(cfgd.get("timeout", 0)),
                heartbeat_timeout=duration(cfgd.get("heartbeat", 0)),
                serdes=SERDES[cfgd.get("serdes")],
                retry_strategy=self.retry_strategy(path + "@sub", node.get("retry")),
            )
        return self.call(path, "wfcb", lambda: ctx.wait_for_callback(submitter, name=path, config=cfg), chain=self.next_chain(ctx))

    def do_invoke(self, ctx, node, path):
        cfgd = node.get("cfg") or {}
        cfg = C.InvokeConfig(
            timeout=duration(cfgd.get("timeout", 0)),
            tenant_id=cfgd.get("tenant"),
            serdes_payload=SERDES[cfgd.get("serdes_payload")],
            serdes_result=SERDES[cfgd.get("serdes_result")],
        )
        use_cfg = cfg if (cfgd or node.get("force_cfg")) else None
        v = self.call(path, "invoke", lambda: ctx.invoke(node["fn"], node.get("payload"), name=path, config=use_cfg),
                      chain=self.next_chain(ctx))
        self._mutate(node, v, path)
        return v

    def do_wfc(self, ctx, node, path):
        checks = node.get("checks") or [{"do": "ok", "fn": "inc"}]
        decisions = node["decisions"]
        rt = self.rt

        def check(state, cctx):
            info = rt.rpc("fn_enter", path=path, fnkind="check", state=canon(state))
            attempt = info.get("attempt", 1)
            beh = checks[min(attempt - 1, len(checks) - 1)]
            if beh.get("gate"):
                rt.rpc("gate", name=beh["gate"], path=path)
            if beh.get("do") == "fail":
                rt.rpc("fn_exit", path=path, fnkind="check", outcome="raise:" + beh["cls"])
                raise make_exc(beh["cls"], beh.get("msg", "checkboom@" + path))
            if "val" in beh:
                new = copy.deepcopy(beh["val"])
            elif beh.get("fn") == "wrap":
                new = (state, attempt)
            elif beh.get("fn") == "append":
                new = list(state) + [attempt]
            elif beh.get("fn") == "mutate":  # in-place update, the same object is returned
                if isinstance(state, dict):
                    state["n%d" % attempt] = attempt
                else:
                    state.append(attempt)
                new = state
            else:
                new = state + 1
            rt.rpc("fn_exit", path=path, fnkind="check", outcome="ok", new=canon(new))
            return new

        def strategy(state, attempt):
            d = decisions[min(attempt - 1, len(decisions) - 1)]
            rt.rpc("wfc_strategy", path=path, state=canon(state), attempt=attempt, cont=d[0] == "cont",
                   delay=d[1] if d[0] == "cont" else None)
            if d[0] == "cont":
                if (attempt + len(path)) % 2:
                    return WaitForConditionDecision.continue_waiting(duration(d[1]))
                return WaitForConditionDecision(should_continue=True, delay=duration(d[1]))  # plain constructor, equally public
            return WaitForConditionDecision.stop_polling()

        cfg = WaitForConditionConfig(wait_strategy=strategy, initial_state=copy.deepcopy(node.get("init", 0)),
                                     serdes=SERDES[node.get("serdes")])
        return self.call(path, "wfc", lambda: ctx.wait_for_condition(check, cfg, name=path), chain=self.next_chain(ctx))

    def _ctx_result(self, node, outs):
        if "result" in node:
            r = node["result"]
            if isinstance(r, dict) and "big" in r:
                return r.get("ch", "x") * r["big"]
            if isinstance(r, dict) and r.get("raw_last"):
                return outs[-1]  # the branch / context hands back what its last operation returned (e.g. an inner BatchResult), as is
            if isinstance(r, dict) and r.get("exotic"):
                return {1, 2, 3}  # a value only a custom (item) serdes can record
            return r
        return [canon(o) for o in outs]

    def do_child(self, ctx, node, path, item):
        chain = self.next_chain(ctx)

        def body(child_ctx):
            self.chains[id(child_ctx)] = [chain + ".", 0]
            self.rt.rpc("fn_enter", path=path, fnkind="child")
            try:
                outs = self.run_body(child_ctx, node["body"], path + "/", item)
            except BaseException as e:
                self.rt.rpc("fn_exit", path=path, fnkind="child", outcome="raise:" + type(e).__name__)
                raise
            self.rt.rpc("fn_exit", path=path, fnkind="child", outcome="ok")
            return self._ctx_result(node, outs)

        cfgd = node.get("cfg") or {}
        cfg = None
        if cfgd:
            cfg = C.ChildConfig(serdes=SERDES[cfgd.get("serdes")],
                                summary_generator=_summary_fn(cfgd))
        return self.call(path, "child", lambda: ctx.run_in_child_context(body, name=path, config=cfg), chain=chain)

    @staticmethod
    def _completion(cfgd):
        preset = cfgd.get("preset")
        if preset:
            return getattr(C.CompletionConfig, preset)()
        if any(k in cfgd for k in ("min_ok", "tol_n", "tol_pct")):
            return C.CompletionConfig(min_successful=cfgd.get("min_ok"), tolerated_failure_count=cfgd.get("tol_n"),
                                      tolerated_failure_percentage=cfgd.get("tol_pct"))
        return None

    def _branch_fn(self, bpath, bnode, bchain):
        def run(child_ctx, item=None):
            self.chains[id(child_ctx)] = [bchain + ".", 0]
            self.rt.rpc("fn_enter", path=bpath, fnkind="branch", chain=bchain)
            try:
                outs = self.run_body(child_ctx, bnode["body"], bpath + "/", item)
            except BaseException as e:
                self.rt.rpc("fn_exit", path=bpath, fnkind="branch", outcome="raise:" + type(e).__name__)
                raise
            r = self._ctx_result(bnode, outs)
            self.rt.rpc("fn_exit", path=bpath, fnkind="branch", outcome="ok", val=canon(r) if len(str(r)) < 2000 else "<big>")
            return r

        return run

    def do_par(self, ctx, node, path):
        cfgd = node.get("cfg") or {}
        chain = self.next_chain(ctx)
        fns = []
        for i, b in enumerate(node["branches"]):
            f = self._branch_fn("%s/b%d" % (path, i), b, "%s.b%d" % (chain, i))
            fns.append(lambda c, f=f: f(c))
        if node.get("same_fn"):
            # the same callable (or equal bound methods) at several positions; it cannot know its index, and with max_concurrency=1
            # and no suspension inside the k-th call is the k-th branch
            import threading

            lock, k, nb = threading.Lock(), [0], len(fns)
            per_pos = list(fns)

            class Shared:
                def run(self_inner, c):  # noqa: N805
                    with lock:
                        i = k[0] % nb
                        k[0] += 1
                    return per_pos[i](c)

            sh = Shared()
            first = sh.run
            fns = [first if node["same_fn"] == "identical" else sh.run for _ in range(nb)]
        cfg = None
        if cfgd or node.get("force_cfg"):
            kw = {"max_concurrency": cfgd.get("max_conc"), "serdes": SERDES[cfgd.get("serdes")],
                  "item_serdes": SERDES[cfgd.get("item_serdes")]}
            cc = self._completion(cfgd)
            if cc is not None:
                kw["completion_config"] = cc
            if _summary_fn(cfgd) is not None:
                kw["summary_generator"] = _summary_fn(cfgd)
            cfg = C.ParallelConfig(**kw)
        br = self.call(path, "par", lambda: ctx.parallel(fns, name=path, config=cfg), chain=chain)
        self._report_batch(path, br)
        return br

    def do_map(self, ctx, node, path):
        cfgd = node.get("cfg") or {}
        items = node["items"]
        per = node.get("per_item")  # optional list of bodies per item
        chain = self.next_chain(ctx)

        def fn(child_ctx, item, index, _all):
            bnode = per[index] if per else node
            return self._branch_fn("%s/b%d" % (path, index), bnode, "%s.b%d" % (chain, index))(child_ctx, (index, item))

        cfg = None
        if cfgd or node.get("force_cfg"):
            kw = {"max_concurrency": cfgd.get("max_conc"), "serdes": SERDES[cfgd.get("serdes")],
                  "item_serdes": SERDES[cfgd.get("item_serdes")]}
            cc = self._completion(cfgd)
            if cc is not None:
                kw["completion_config"] = cc
            if _summary_fn(cfgd) is not None:
                kw["summary_generator"] = _summary_fn(cfgd)
            cfg = C.MapConfig(**kw)
        br = self.call(path, "map", lambda: ctx.map(items, fn, name=path, config=cfg), chain=chain)
        self._report_batch(path, br)
        return br

    def _report_batch(self, path, br):
        try:
            items = [(i.index, getattr(i.status, "value", str(i.status)), canon(i.result) if len(str(i.result)) < 3000 else "<big>",
                      None if i.error is None else (i.error.type, i.error.message)) for i in br.all]
            self.rt.rpc("batch", path=path, items=items, reason=getattr(br.completion_reason, "value", str(br.completion_reason)))
        except Exception as e:  # noqa: BLE001
            self.rt.rpc("batch", path=path, items=None, reason="unreadable:%s" % type(e).__name__)

    # ------------------------------------------------------------------ handler
    def user_fn(self, event, ctx):
        prog = self.prog
        self.rt.rpc("fn_enter", path="", fnkind="handler", event=canon(event))
        if prog.get("logger"):
            # one logger object per process, as a module-level logger in a Lambda function (a warm sandbox hands the same object to
            # every invocation)
            global _PROCESS_LOGGER  # noqa: PLW0603
            if _PROCESS_LOGGER is None or _PROCESS_LOGGER.rt is not self.rt:
                _PROCESS_LOGGER = CapLogger(self.rt)
            ctx.set_logger(_PROCESS_LOGGER)
        outs = self.run_body(ctx, prog["body"], "")
        ret = prog.get("ret")
        if ret is None:
            return [canon(o) for o in outs]
        if "big" in ret:
            return ret.get("ch", "x") * ret["big"]
        if ret.get("unserializable"):
            return {1, 2, 3}
        return ret.get("val")


def build_handler(scenario: dict, rt, inv_no: int):
    from dw.child import FakeLambdaClient

    it = Interp(scenario["prog"], rt, inv_no)
    handler = durable_execution(boto3_client=FakeLambdaClient())(it.user_fn)
    return handler, it


class _WarmSlot:
    it = None


def warm_handler(scenario: dict, rt, inv_no: int, handler):
    """Warm sandbox: the decorated handler (and the service client given to it) is created once per process; every invocation
    gets a fresh interpreter of the workflow program."""
    from dw.child import FakeLambdaClient

    _WarmSlot.it = Interp(scenario["prog"], rt, inv_no)
    if handler is None:
        def user(event, ctx):
            return _WarmSlot.it.user_fn(event, ctx)

        handler = durable_execution(boto3_client=FakeLambdaClient())(user)
    return handler, _WarmSlot.it
