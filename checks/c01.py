"""C01 world check (see DESIGN.md section 2, C01)."""
from checks.worldcheck import Spec, replayed_delivery

PROP = "C01"
SPEC = Spec(
    PROP,
    level="fault_enumeration",
    rule="random programs (all nine operation kinds, nesting<=3) x {uninterrupted with random pagination/latency, every single "
    "crash point of a small-program corpus, random multi-crash, asynchronous SIGKILL, yield injection}; at every user-function entry the backend table must not hold that operation terminal (context bodies excepted only under ReplayChildren); every operation terminal at invocation start must deliver the recorded kind of outcome. Non-trivial = an operation that was terminal at an invocation's start was delivered again (replayed) in that invocation. "
    "A class = (program shape hash, interruption pattern, event kind at which the crash landed).",
    deciding=replayed_delivery,
)
cases = SPEC.cases
run_case = SPEC.run_case
if __name__ == "__main__":
    SPEC.main("checks.c01")
