"""C06 - checkpoint failure is fail-stop: no progress, no hang, no success."""
import copy
import random

from checks import world as W
from checks.c18 import ERRS
from checks.worldcheck import Spec, h8
from dw.driver import run_scenario

PROP = "C06"

SHAPES = {
    "seq": [{"k": "step", "val": 1}, {"k": "step", "val": 2, "sem": "most"}, {"k": "wait", "s": 1}, {"k": "step", "val": 3},
            {"k": "wfc", "init": 0, "decisions": [("cont", 1), ("stop",)]}],
    "child": [{"k": "child", "body": [{"k": "step", "val": 1}, {"k": "child", "body": [{"k": "step", "val": 2, "sem": "most"}]}]}, {"k": "cb"}],
    "par-running": [{"k": "par", "branches": [{"body": [{"k": "step", "val": 1}, {"k": "step", "val": 2}]},
                                                {"body": [{"k": "step", "val": 3, "sem": "most"}, {"k": "step", "val": 4}]},
                                                {"body": [{"k": "step", "val": 5}]}], "cfg": {"preset": "all_completed"}}, {"k": "step", "val": 9}],
    "map-suspended": [{"k": "map", "items": [1, 2, 3], "per_item": [{"body": [{"k": "wait", "s": 2}, {"k": "step", "val": 1}]},
                                                                      {"body": [{"k": "cb"}]},
                                                                      {"body": [{"k": "step", "val": 2}, {"k": "step", "val": 3}, {"k": "step", "val": 4}]}],
                       "body": [], "cfg": {"preset": "all_completed"}}],
    # a branch retries on a short timer while a sibling is still working: the TimerScheduler thread issues the refresh checkpoint
    "map-resubmitted": [{"k": "map", "items": [1, 2], "per_item": [
        {"body": [{"k": "step", "script": [{"do": "fail", "cls": "ValueError", "msg": "x"}, {"do": "ok", "val": 1}], "retry": {"decisions": [("retry", 1), ("stop",)]}}]},
        {"body": [{"k": "step", "script": [{"do": "ok", "val": 2, "gate": "slow"}]}, {"k": "step", "val": 3}]}],
        "body": [], "cfg": {"preset": "all_completed"}}],
    # after the timer thread's refresh checkpoint failed, neither branch needs another checkpoint to park again: the resubmitted one
    # re-suspends on its (locally still running) wait, the sibling awaits a callback it created before the failure
    "map-resubmitted-no-further-checkpoint": [{"k": "map", "items": [1, 2], "per_item": [
        {"body": [{"k": "wait", "s": 1}, {"k": "step", "val": 1}]},
        {"body": [{"k": "cb", "between": [{"k": "gate", "name": "slow"}]}]}],
        "body": [], "cfg": {"preset": "all_completed"}}],
    # the retry attempt of an at-most-once step (READY at the start of a later invocation, or resubmitted in-process) has its own START
    "amo-retry": [{"k": "step", "script": [{"do": "fail", "cls": "ValueError", "msg": "x"}, {"do": "ok", "val": 1}], "retry": {"decisions": [("retry", 1), ("stop",)]}, "sem": "most"},
                  {"k": "step", "val": 2, "sem": "most"}],
    "par-amo-retry": [{"k": "par", "branches": [
        {"body": [{"k": "step", "script": [{"do": "fail", "cls": "ValueError", "msg": "x"}, {"do": "ok", "val": 1}], "retry": {"decisions": [("retry", 1), ("stop",)]}, "sem": "most"}]},
        {"body": [{"k": "step", "script": [{"do": "ok", "val": 2, "gate": "slow"}]}, {"k": "step", "val": 3, "sem": "most"}]}], "cfg": {"preset": "all_completed"}}],
    # one branch hands its record to the pipeline only after the failing call has been answered and the checkpoint thread has
    # drained its queues (the producer was between its failed-check and its enqueue)
    "par-late-enqueue": [{"k": "par", "branches": [{"body": [{"k": "step", "val": 1}, {"k": "step", "val": 2}]},
                                                     {"body": [{"k": "step", "val": 3}, {"k": "step", "val": 4}]},
                                                     {"body": [{"k": "step", "val": 5}, {"k": "step", "val": 6}]}], "cfg": {"preset": "all_completed"}}, {"k": "step", "val": 9}],
    "seq-late-enqueue": [{"k": "step", "val": 1}, {"k": "step", "val": 2}],
    "big-result": [{"k": "step", "val": 1}],
    # results large enough that the START and the SUCCEED of one step cannot share a batch (750 KB): the SUCCEED waits in the overflow queue
    "big-step": [{"k": "step", "script": [{"do": "ok", "big": 800 * 1024}]}, {"k": "step", "val": 2}],
    "par-big-steps": [{"k": "par", "branches": [{"body": [{"k": "step", "script": [{"do": "ok", "big": 450 * 1024}]}], "result": "r0"},
                                                  {"body": [{"k": "step", "script": [{"do": "ok", "big": 450 * 1024}]}], "result": "r1"},
                                                  {"body": [{"k": "step", "script": [{"do": "ok", "big": 450 * 1024}]}], "result": "r2"}],
                       "cfg": {"preset": "all_completed"}}, {"k": "step", "val": 3}],
    # contexts whose result exceeds 256 kB are recorded as a summary: their completion record is still the LAST thing the workflow
    # waits for before it returns
    "child-summarised-last": [{"k": "child", "body": [{"k": "step", "val": 1}], "result": {"big": 300 * 1024}}],
    "map-summarised-last": [{"k": "map", "items": [0, 1], "body": [{"k": "step", "val": 1}], "result": {"big": 160 * 1024}, "cfg": None}],
    "nested": [{"k": "par", "branches": [{"body": [{"k": "map", "items": [1, 2], "body": [{"k": "step", "val": 1}, {"k": "wait", "s": 1}]}]},
                                           {"body": [{"k": "child", "body": [{"k": "step", "val": 2}, {"k": "invoke", "fn": "f", "payload": 1, "cfg": {"timeout": 60}}]}]}],
                "cfg": {"preset": "all_completed"}}],
}
# the sibling in "map-resubmitted" stays inside its step function until the resubmitted branch's refresh checkpoint has been seen
HOLDS = {"map-resubmitted-no-further-checkpoint": [{"match": {"kind": "gate", "name": "slow"}, "until": {"event": {"kind": "api", "updates": [], "op": "checkpoint"}}, "delay_ms": 30}],
         "map-resubmitted": [{"match": {"kind": "gate", "name": "slow"}, "until": {"event": {"kind": "api", "updates": [], "op": "checkpoint"}}}],
         "par-amo-retry": [{"match": {"kind": "gate", "name": "slow"}, "until": {"event": {"kind": "api", "updates": [], "op": "checkpoint"}}}],
         "seq-late-enqueue": [{"match": {"kind": "gate", "name_re": r"^put:STEP:SUCCEED:"}, "until": {"event": {"kind": "api", "has": "fault"}}, "delay_ms": 70}],
         "par-late-enqueue": [{"match": {"kind": "gate", "name_re": r"^put:STEP:SUCCEED:0/b2/"}, "until": {"event": {"kind": "api", "has": "fault"}}, "delay_ms": 70}]}
OPTS = {"par-late-enqueue": {"targeted": [{"kind": "queue_put", "match": {"action": "SUCCEED", "type": "STEP"}}], "idle_s": 0.3},
        "seq-late-enqueue": {"targeted": [{"kind": "queue_put", "match": {"action": "SUCCEED", "type": "STEP"}}], "idle_s": 0.3}}


def cases(tier, seed):
    rng = random.Random(seed)
    for sname in SHAPES:
        errs = (ERRS if tier != "quick" else [ERRS[0], ERRS[5], ERRS[3], ERRS[8], ERRS[2]]) + [{"kind": "garble", "how": "subtype"}]
        yield {"label": "fail-enum-" + sname, "shape": sname, "errs": errs, "prog_seed": seed * 100 + len(sname),
               "whens": ["before", "after"] if tier != "quick" else ["before"], "stride": 1 if tier != "quick" or sname != "nested" else 2}
    n = 30 if tier == "quick" else 400
    for i in range(n):
        yield {"label": "fail-random", "prog_seed": seed * 100003 + i, "err": rng.choice(ERRS), "when": rng.choice(["before", "after"]),
               "perturb": i % 3 == 0}


def run_case(case):
    acc = W.Acc(case)
    if "exact_scenario" in case:
        sc = copy.deepcopy(case["exact_scenario"])
        r = run_scenario(copy.deepcopy(sc))
        acc.add(r, [PROP], cls=lambda r: "replay", sc=sc)
        return acc.out
    if case["label"].startswith("fail-enum"):
        sname = case["shape"]
        prog = {"body": SHAPES[sname]}
        if sname == "big-result":
            prog["ret"] = {"big": 6 * 1024 * 1024 + 100}
        base = {"prog": prog, "seed": case["prog_seed"], "world": {"complete": {}, "timers": "all"}, "holds": HOLDS.get(sname, []),
                "max_inv": 25, "opts": dict({"hang_s": 3.0}, **OPTS.get(sname, {}))}
        r0 = run_scenario(copy.deepcopy(base))
        acc.add(r0, [PROP], cls=None, sc=base)
        napi = sum(1 for e in r0["trace"] if e["kind"] == "api" and e.get("op") == "checkpoint")
        acc.out["obs"]["failing_positions_enumerated"] = 0
        for k in range(1, napi + 1, case.get("stride", 1)):
            for err in case["errs"]:
                for when in case["whens"]:
                    sc = copy.deepcopy(base)
                    # the failing request is answered at once, or stays in flight long enough for other records to queue up behind it
                    delay = [0, 0, 15, 40][(k + len(str(err))) % 4]
                    if sname in ("par-late-enqueue", "seq-late-enqueue"):
                        delay = 40  # the failing call stays in flight while the late producer sits between its failed-check and its enqueue
                    sc["faults"] = [{"match": {"op": "checkpoint", "n": k}, "err": err, "when": when, "delay_ms": delay}]
                    r = run_scenario(copy.deepcopy(sc))
                    acc.out["obs"]["failing_positions_enumerated"] += 1
                    acc.add(r, [PROP], sc=sc, cls=lambda r, k=k, err=err, when=when: _cls(r, sname, err, when))
        # the response of a successful checkpoint call is paginated and the fetch of a following page fails: the same fail-stop
        # behaviour is required of the checkpoint thread (classification of the outcome is not judged for page fetches)
        scp = copy.deepcopy(base)
        scp["pages"] = {"resp_page": 1}
        rp = run_scenario(copy.deepcopy(scp))
        npages = sum(1 for e in rp["trace"] if e["kind"] == "api" and e.get("op") == "get_state")
        for nth in range(1, min(npages, 8 if case.get("stride", 1) == 1 else 4) + 1):
            sc = copy.deepcopy(scp)
            sc["faults"] = [{"match": {"op": "get_state", "n_inv": None}, "err": case["errs"][nth % len(case["errs"])], "when": "before", "nth": nth}]
            r = run_scenario(copy.deepcopy(sc))
            acc.out["obs"]["failing_page_fetches_enumerated"] = acc.out["obs"].get("failing_page_fetches_enumerated", 0) + 1
            acc.add(r, [PROP], sc=sc, cls=lambda r, nth=nth: _cls(r, sname, sc["faults"][0]["err"], "page-fetch"))
        for k in range(1, napi + 1, case.get("stride", 1)):
            # once per position: the signalling thread (Event.set / Queue.put / lock release) is descheduled right after signalling,
            # so a waiter woken by the flag runs before whatever the signaller does next
            sc = copy.deepcopy(base)
            sc["faults"] = [{"match": {"op": "checkpoint", "n": k}, "err": case["errs"][k % len(case["errs"])], "when": "before"}]
            sc["opts"] = dict(sc["opts"], perturb={"p": 0.0, "seed": case["prog_seed"] * 31 + k, "files": ["threading.py", "state.py", "executor.py"],
                                                   "after_sync": {"p": 0.8, "sleep": 0.003}})
            r = run_scenario(copy.deepcopy(sc))
            acc.out["obs"]["failing_positions_under_after_sync_perturbation"] = acc.out["obs"].get("failing_positions_under_after_sync_perturbation", 0) + 1
            acc.add(r, [PROP], sc=sc, cls=lambda r, k=k: _cls(r, sname, sc["faults"][0]["err"], "before") + "|after-sync")
        return acc.out
    sc = W.base_scenario({"prog_seed": case["prog_seed"], "gen": {"max_ops": 8}})
    r0 = run_scenario(copy.deepcopy(sc))
    napi = sum(1 for e in r0["trace"] if e["kind"] == "api" and e.get("op") == "checkpoint")
    rng = random.Random(case["prog_seed"])
    for _ in range(3):
        sc1 = copy.deepcopy(sc)
        sc1["faults"] = [{"match": {"op": "checkpoint", "n": rng.randrange(1, napi + 1)}, "err": case["err"], "when": case["when"],
                          "delay_ms": rng.choice([0, 10, 30])}]
        sc1.setdefault("opts", {})["hang_s"] = 3.0
        if case.get("perturb"):
            sc1["opts"]["perturb"] = {"p": 0.03, "seed": case["prog_seed"]}
        r = run_scenario(copy.deepcopy(sc1))
        acc.add(r, [PROP], sc=sc1, cls=lambda r: _cls(r, "rand-" + h8(W.shape_of(sc["prog"])), case["err"], case["when"]))
    return acc.out


def _cls(r, sname, err, when):
    f = next((e for e in r["trace"] if e["kind"] == "api" and e.get("fault")), None)
    if f is None:
        return None
    from dw.monitors import role_of

    ups = f.get("updates") or []
    what = ",".join(sorted({"%s-%s" % (u["Type"], u["Action"]) for u in ups})) or "empty-refresh"
    return "%s|%s|%s|%s|%s" % (sname, err.get("status") or err.get("cls"), when, what, r.get("stop"))


RULE = ("for each of fourteen program shapes (incl. the retry attempt of an at-most-once step at top level and in a branch, and a branch whose record is handed over only after the failing call was answered and the queues drained) (steps whose results force the overflow queue (800 KB, 3 x 450 KB in parallel), the failing request "
        "answered at once or left in flight 15-40 ms so that other records queue up behind it; sequential with at-most-once step / wait / wait_for_condition; nested child contexts with a "
        "callback; parallel with running branches; map with suspended (timer, callback) and running branches; map with a branch "
        "re-submitted by the TimerScheduler while a sibling is held inside its step function, so the failing call is the timer thread's "
        "empty refresh checkpoint; the >6 MB final-result checkpoint; nested parallel/map/child with an invoke) EVERY position of the "
        "checkpoint-call sequence is made the failing call x error class (5xx, 4xx, Invalid Checkpoint Token, non-botocore; all ten "
        "classes in the thorough tier) x {request lost, response lost}, and once more per position under after-sync perturbation (the signalling thread is descheduled right after Event.set / Queue.put / lock release); the fetch of a following page of a paginated checkpoint response fails (first 8 fetches of each shape; fail-stop judged, classification not); plus random programs with a random failing call under yield "
        "injection. Oracle after the first failed call: no further API call; no result/error delivered for an unrecorded outcome; no "
        "at-most-once entry without recorded START; outcome raise (retriable 4xx) or FAILED(CheckpointError) per the classification "
        "pinned by the repository's tests, never SUCCEEDED/PENDING; termination decided by the logical hang rule (identical stack "
        "dumps, every thread parked, no call in flight) and the spin rule. A class = (shape, error class, lost side, kinds of updates "
        "in the failing call, how the invocation ended).")

if __name__ == "__main__":
    import sys

    from checks.worldcheck import ASSUME
    from dw import harness

    sys.exit(harness.main_for("checks.c06", PROP, "fault_enumeration", RULE, ASSUME, {"c06_failures": 150}))
