"""Concurrent first use of the stateless codecs (slice of C15 and C20).

The SDK calls the default serializer and the wire-model codecs from every map/parallel branch thread at once, the first
time in a fresh process.  This slice starts a *fresh interpreter* per trial (so nothing is warmed), lets T threads leave a
barrier together and run the same list of conversions under LINE-level yield injection restricted to the codec's source
file, and compares every thread's output with the output of the same conversions run sequentially in the (warm) parent.
The oracle is equality with the sequential result, so it cannot alarm on code whose conversions are functions of their input.

Parent -> child: pickled {"mode", "seed", "threads", "p", "items"} on stdin; child -> parent: pickled per-thread outputs.
"""
from __future__ import annotations

import os
import pickle
import random
import subprocess
import sys
import threading
import time

ROOT = os.path.dirname(os.path.dirname(os.path.abspath(__file__)))
FILES = {"c20": ("aws_durable_execution_sdk_python/lambda_service.py", "aws_durable_execution_sdk_python/execution.py"),
         "c15": ("aws_durable_execution_sdk_python/serdes.py", "aws_durable_execution_sdk_python/concurrency/models.py")}


# ------------------------------------------------------------------------------------------------ conversions
def convert(mode, item):
    """One conversion; returns a picklable, comparable outcome. Runs in parent (sequential) and child (threads)."""
    try:
        if mode == "c20":
            from aws_durable_execution_sdk_python import execution as E
            from aws_durable_execution_sdk_python import lambda_service as L

            kind, path, wire = item
            cls = {"update": L.OperationUpdate, "operation": L.Operation, "input": E.DurableExecutionInvocationInput,
                   "output": E.DurableExecutionInvocationOutput}[kind]
            if path == "json" and hasattr(cls, "from_json_dict"):
                x = cls.from_json_dict(wire)
                return ("ok", repr(x), _plain(x.to_json_dict() if hasattr(x, "to_json_dict") else x.to_dict()))
            x = cls.from_dict(wire)
            return ("ok", repr(x), _plain(x.to_dict()))
        from aws_durable_execution_sdk_python.serdes import deserialize, serialize
        from dw.canon import canon

        s = serialize(None, item, "op", "arn")
        v2 = deserialize(None, s, "op", "arn")
        return ("ok", s, canon(v2))
    except Exception as e:  # noqa: BLE001
        return ("exc", type(e).__name__, type(e.__cause__).__name__ if e.__cause__ else "")


def _plain(x):
    if isinstance(x, dict):
        return {k: _plain(v) for k, v in sorted(x.items())}
    if isinstance(x, (list, tuple)):
        return [_plain(v) for v in x]
    if isinstance(x, (str, int, float, bool)) or x is None:
        return x
    return repr(x)


# ------------------------------------------------------------------------------------------------ child
def child_main():
    job = pickle.loads(sys.stdin.buffer.read())  # noqa: S301
    mode, items, T = job["mode"], job["items"], job["threads"]
    rng = random.Random(job["seed"])
    lock = threading.Lock()
    hits = [0]
    files = FILES[mode]
    p = job["p"]
    mon = sys.monitoring
    if p > 0:
        mon.use_tool_id(3, "codec-yield")

        def on_line(code, line):
            if not code.co_filename.endswith(files):
                return mon.DISABLE
            with lock:
                r, r2 = rng.random(), rng.random()
            if r < p:
                hits[0] += 1
                time.sleep(0 if r2 < 0.7 else r2 * 0.0004)
            return None

        mon.register_callback(3, mon.events.LINE, on_line)
        mon.set_events(3, mon.events.LINE)
    sys.setswitchinterval(1e-5)
    # import (module level only) before the barrier: first *use* is what the threads race on
    import aws_durable_execution_sdk_python.execution  # noqa: F401
    import aws_durable_execution_sdk_python.serdes  # noqa: F401

    out = [None] * T
    bar = threading.Barrier(T)
    orders = [list(range(len(items))) for _ in range(T)]
    for t in range(1, T):
        if job.get("shuffle"):
            random.Random(job["seed"] * 31 + t).shuffle(orders[t])

    def run(t):
        res = [None] * len(items)
        bar.wait()
        for i in orders[t]:
            res[i] = convert(mode, items[i])
        out[t] = res

    ths = [threading.Thread(target=run, args=(t,), daemon=True) for t in range(T)]
    for th in ths:
        th.start()
    for th in ths:
        th.join(100)
    if p > 0:
        mon.set_events(3, 0)
    sys.stdout.buffer.write(pickle.dumps({"out": out, "hits": hits[0]}))
    sys.stdout.buffer.flush()
    os._exit(0)


# ------------------------------------------------------------------------------------------------ parent
def run_trial(mode, items, seed, threads=4, p=0.2, shuffle=True, timeout=120):
    """Returns (verdict, details): verdict in held / differs / inconclusive."""
    expected = [convert(mode, it) for it in items]
    job = {"mode": mode, "seed": seed, "threads": threads, "p": p, "items": items, "shuffle": shuffle}
    env = dict(os.environ)
    env["PYTHONPATH"] = os.pathsep.join([x for x in (env.get("PYTHONPATH"), ROOT) if x])
    try:
        pr = subprocess.run([sys.executable, "-c", "from checks.concurrent_codec import child_main; child_main()"], input=pickle.dumps(job),
                            stdout=subprocess.PIPE, stderr=subprocess.PIPE, timeout=timeout, env=env, cwd=ROOT, check=False)
    except subprocess.TimeoutExpired:
        return "inconclusive", {"why": "watchdog"}
    if pr.returncode != 0 or not pr.stdout:
        return "inconclusive", {"why": "child exit %s: %s" % (pr.returncode, pr.stderr.decode(errors="replace")[-300:])}
    res = pickle.loads(pr.stdout)  # noqa: S301
    diffs = []
    text_diffs = 0
    for t, r in enumerate(res["out"]):
        if r is None:
            return "inconclusive", {"why": "thread %d did not finish" % t}
        for i, (a, b) in enumerate(zip(expected, r)):
            if mode == "c15" and a[0] == b[0] == "ok":
                # the property is about the value that comes back, not about the text chosen for it
                text_diffs += a[1] != b[1]
                a, b = (a[0], a[2]), (b[0], b[2])
            if a != b:
                diffs.append((t, i, a, b))
    return ("differs" if diffs else "held"), {"diffs": diffs[:5], "n_diffs": len(diffs), "hits": res["hits"], "conversions": threads * len(items),
                                              "text_only_differences": text_diffs}
